"""C08 — curated clusters get the right template provenance (DESIGN 4/C08): the merge map."""
from pyvc.contract import contract, declare_class

M = 'phylib/io/model.py'
declare_class('TemplateModel', M, fields={'spike_clusters': 'arr[int]', 'spike_templates': 'arr[int]'})
_SC, _ST = 'self.spike_clusters', 'self.spike_templates'
_FROM = lambda row, upto: 'all(any(%s[s] == %s[j] and %s[s] == c for s in range(len(%s))) %s for j in range(len(%s)))' % (_ST, row, _SC, _SC, upto, row)

contract(M, 'TemplateModel.get_merge_map', props=['C08'], params={}, fields={'spike_clusters': 'arr[int]', 'spike_templates': 'arr[int]'},
    requires=[('one-assignment-per-spike', 'len(%s) == len(%s) and len(%s) >= 1' % (_SC, _ST, _SC)),
              ('ids-non-negative', 'all(%s[s] >= 0 and %s[s] >= 0 for s in range(len(%s)))' % (_SC, _ST, _SC))],
    result='tuple[rag[int],arr[int]]',
    locals={'inverse_mapping_dict': 'rag[int]'},
    loops={
      0: {'idx': 't', 'seq': 'U', 'invariant': [
        ('keys', '0 <= t and t <= len(U) and len(inverse_mapping_dict) >= 1 and all(%s[s] < len(inverse_mapping_dict) for s in range(len(%s))) and any(%s[s] == len(inverse_mapping_dict) - 1 for s in range(len(%s)))' % (_SC, _SC, _SC, _SC)),
        ('entries-are-templates-already-processed-whose-spikes-are-in-the-cluster',
         'all(all(any(U[q] == inverse_mapping_dict[c][j] for q in range(t)) and any(%s[s] == inverse_mapping_dict[c][j] and %s[s] == c for s in range(len(%s))) for j in range(len(inverse_mapping_dict[c]))) for c in range(len(inverse_mapping_dict)))' % (_ST, _SC, _SC)),
        ('lists-strictly-increasing', 'all(all(inverse_mapping_dict[c][i] < inverse_mapping_dict[c][j] for i in range(len(inverse_mapping_dict[c])) for j in range(i + 1, len(inverse_mapping_dict[c]))) for c in range(len(inverse_mapping_dict)))'),
        ('every-spike-of-a-processed-template-is-recorded', 'all(implies(any(U[q] == %s[s] for q in range(t)), any(inverse_mapping_dict[%s[s]][j] == %s[s] for j in range(len(inverse_mapping_dict[%s[s]])))) for s in range(len(%s)))' % (_ST, _SC, _ST, _SC, _SC))]},
      1: {'idx': 'm', 'seq': 'Mp', 'invariant': [
        # only the difference to the dictionary D1 at the start of this template's pass: clusters already visited got temp appended
        ('keys', '0 <= m and m <= len(Mp) and len(inverse_mapping_dict) == len(D1)'),
        ('old-entries-kept', 'all(all(inverse_mapping_dict[c][j] == D1[c][j] for j in range(len(D1[c]))) for c in range(len(D1)))'),
        ('visited-clusters-got-temp', 'all(implies(any(Mp[q] == c for q in range(m)), len(inverse_mapping_dict[c]) == len(D1[c]) + 1 and inverse_mapping_dict[c][len(D1[c])] == temp) for c in range(len(D1)))'),
        ('other-lists-untouched', 'all(implies(not any(Mp[q] == c for q in range(m)), len(inverse_mapping_dict[c]) == len(D1[c])) for c in range(len(D1)))')]}},
    cuts=[('mapping = np.unique', 'mapping-lists-the-clusters-of-temp-spikes', 'all(implies(%s[s] == temp, any(mapping[q] == %s[s] for q in range(len(mapping)))) for s in range(len(%s)))' % (_ST, _SC, _SC)),
          ('mapping = np.unique', 'each-mapped-cluster-has-a-temp-spike', 'all(any(%s[s] == temp and %s[s] == mapping[q] for s in range(len(%s))) for q in range(len(mapping)))' % (_ST, _SC, _SC)),
          ('before:for n in mapping', 'let:D1', 'inverse_mapping_dict'),
          ('before:for n in mapping', 'old-entries-are-smaller-than-temp', 'all(all(D1[c][j] < temp for j in range(len(D1[c]))) for c in range(len(D1)))'),
          ('for n in mapping', 'lists-grow-by-at-most-one', 'len(inverse_mapping_dict) == len(D1) and all(len(D1[c]) <= len(inverse_mapping_dict[c]) and len(inverse_mapping_dict[c]) <= len(D1[c]) + 1 for c in range(len(D1)))'),
          ('for n in mapping', 'new-entries-are-temp-in-mapped-clusters', 'all(implies(len(inverse_mapping_dict[c]) == len(D1[c]) + 1, inverse_mapping_dict[c][len(D1[c])] == temp and any(mapping[q] == c for q in range(len(mapping)))) for c in range(len(D1)))')],
    # from the statement: "every cluster id from 0 to the maximum maps to exactly the set of templates its spikes came from, and ids without spikes are reported as empty"
    ensures=[('one-key-per-id-up-to-the-maximum', 'len(result[0]) >= 1 and all(%s[s] < len(result[0]) for s in range(len(%s))) and any(%s[s] == len(result[0]) - 1 for s in range(len(%s)))' % (_SC, _SC, _SC, _SC)),
             ('only-templates-its-spikes-came-from', 'all(all(any(%s[s] == result[0][c][j] and %s[s] == c for s in range(len(%s))) for j in range(len(result[0][c]))) for c in range(len(result[0])))' % (_ST, _SC, _SC)),
             ('every-template-a-spike-came-from', 'all(any(result[0][%s[s]][j] == %s[s] for j in range(len(result[0][%s[s]]))) for s in range(len(%s)))' % (_SC, _ST, _SC, _SC)),
             ('no-template-listed-twice', 'all(all(result[0][c][i] < result[0][c][j] for i in range(len(result[0][c])) for j in range(i + 1, len(result[0][c]))) for c in range(len(result[0])))'),
             ('ids-without-spikes-reported-as-empty', 'all(iff(any(result[1][j] == c for j in range(len(result[1]))), len(result[0][c]) == 0) for c in range(len(result[0])))')])

# ---- cluster_waveforms: "A cluster stemming from a single template carries that template's waveform unchanged; a cluster stemming from
#      several carries, on the channels of its dominant template, the ... mean of its templates' ... waveforms" (placement; the mean itself
#      is the assumed callee get_cluster_mean_waveforms, bounded) ------------------------------------------------------------------------
from pyvc.contract import declare_ufunc
declare_ufunc('zero_cell', ['int'], 'elem')
declare_ufunc('mean_wave', ['int', 'bool'], 'elem')        # what get_cluster_mean_waveforms(c, unwhiten=False) returns for cluster c: waveform ...
declare_ufunc('mean_chans', ['int', 'bool'], 'elem')       # ... and the channels it is given on
declare_ufunc('set_cols', ['elem', 'elem', 'elem', 'int'], 'elem')   # row s of a block after block[:, ids] = X (opaque row-wise column update)
declare_ufunc('swapaxes', ['elem', 'int', 'int'], 'elem')
declare_class('MeanWaveforms', None, fields={'mean_waveforms': 'elem', 'channel_ids': 'elem'})
declare_class('DenseStoreW', None, fields={'data': 'cube[elem]'})
declare_class('ClusterStore', None, fields={'data': 'cube[elem]', 'cols': 'none'})
contract(M, 'TemplateModel.get_cluster_mean_waveforms', kind='assumed', params={'self': 'obj[TemplateModel]', 'cluster_id': 'int', 'unwhiten': 'bool'}, result='obj[MeanWaveforms]',
    ensures=['result.mean_waveforms == mean_wave(cluster_id, unwhiten) and result.channel_ids == mean_chans(cluster_id, unwhiten)'],
    note='the weighted mean of the templates of a cluster on the channels of its dominant template (floating point: bounded only)')
contract('<lib>', 'Bunch', variant='cluster-store', kind='assumed', params={}, kwargs='kw', cases=[{'kw': 'rec[data:cube[elem],cols:none]'}], result='obj[ClusterStore]',
    result_from={'fields_of': 'kw', 'cls': 'ClusterStore'}, ensures=[])
_MM, _TD = 'self.merge_map', 'self.sparse_templates.data'
_CW = lambda D, c: ('(implies(len(%s[%s]) == 1, all(%s[%s][s] == %s[%s[%s][0]][s] for s in range(self.n_samples_waveforms))) and '
                    'implies(len(%s[%s]) == 0, all(%s[%s][s] == zero_cell(self.n_channels) for s in range(self.n_samples_waveforms))) and '
                    'implies(len(%s[%s]) > 1, all(%s[%s][s] == set_cols(zero_cell(self.n_channels), mean_chans(%s, False), swapaxes(mean_wave(%s, False), 0, 1), s) for s in range(self.n_samples_waveforms))))'
                    % (_MM, c, D, c, _TD, _MM, c, _MM, c, D, c, _MM, c, D, c, c, c))
contract(M, 'TemplateModel.cluster_waveforms', props=['C08'], params={},
    fields={'n_samples_waveforms': 'int', 'n_channels': 'int', 'cluster_ids': 'arr[int]', 'merge_map': 'rag[int]', 'sparse_templates': 'obj[DenseStoreW]'},
    requires=[('shapes', 'self.n_samples_waveforms >= 0 and self.n_channels >= 0 and width(%s) == self.n_samples_waveforms and depth(%s) == self.n_channels' % (_TD, _TD)),
              ('one-entry-per-cluster-id-up-to-the-maximum', 'len(self.cluster_ids) >= 1 and all(self.cluster_ids[i] < len(%s) for i in range(len(self.cluster_ids))) and any(self.cluster_ids[i] == len(%s) - 1 for i in range(len(self.cluster_ids)))' % (_MM, _MM)),
              ('template-ids-exist', 'all(all(0 <= %s[c][j] and %s[c][j] < len(%s) for j in range(len(%s[c]))) for c in range(len(%s)))' % (_MM, _MM, _TD, _MM, _MM))],
    result='obj[ClusterStore]',
    loops={0: {'idx': 'c', 'invariant': [
        ('shape', '0 <= c and c <= len(%s) and len(data) == len(%s) and width(data) == self.n_samples_waveforms and depth(data) == self.n_channels' % (_MM, _MM)),
        ('clusters-done', 'all(%s for q in range(c))' % _CW('data', 'q')),
        ('clusters-to-do-still-zero', 'all(all(data[q][s] == zero_cell(self.n_channels) for s in range(self.n_samples_waveforms)) for q in range(c, len(%s)))' % _MM)]}},
    ensures=[('dense-store-with-one-block-per-cluster-id', 'result.cols is None and len(result.data) == len(%s) and width(result.data) == self.n_samples_waveforms and depth(result.data) == self.n_channels' % _MM),
             ('single-template-clusters-carry-that-template-unchanged-others-as-placed', 'all(%s for q in range(len(%s)))' % (_CW('result.data', 'q'), _MM))])
