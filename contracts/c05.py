"""C05 — template records are aligned with their channel list (DESIGN 4/C05)."""
from pyvc.contract import contract, declare_class

M = 'phylib/io/model.py'

DISTINCT_POS = 'all(channel_positions[i] != channel_positions[j] for i in range(len(channel_positions)) for j in range(i + 1, len(channel_positions)))'
contract(M, 'get_closest_channels', props=['C05'],
    params={'channel_positions': 'arr[tuple[real,real]]', 'channel_index': 'int', 'n': 'opt[int]'}, defaults={'n': 'None'},
    requires=[('channel-exists', '0 <= channel_index and channel_index < len(channel_positions)'),
              ('positions-pairwise-distinct', DISTINCT_POS),          # the loader replaces them otherwise (Appendix G)
              ('n-non-negative', 'n is None or n >= 0')],
    result='arr[int]',
    ensures=[('the-channel-itself-first', 'len(result) >= 1 and result[0] == channel_index'),
             ('channels-are-distinct-and-exist', 'all(0 <= result[i] and result[i] < len(channel_positions) for i in range(len(result))) and '
                                                 'all(result[i] != result[j] for i in range(len(result)) for j in range(i + 1, len(result)))'),
             ('at-most-n', 'implies(n is not None and n > 0, len(result) == min(n, len(channel_positions)))'),
             ('nearest-first', 'all(dist2(channel_positions, channel_index, result[i]) <= dist2(channel_positions, channel_index, result[j]) for i in range(len(result)) for j in range(i + 1, len(result)))'),
             ('listed-are-no-farther-than-unlisted', 'all(implies(all(result[i] != c for i in range(len(result))), all(dist2(channel_positions, channel_index, result[j]) <= dist2(channel_positions, channel_index, c) for j in range(len(result)))) for c in range(len(channel_positions)))'),
             ('all-channels-when-no-n', 'implies(n is None or n == 0, len(result) == len(channel_positions))')])

from pyvc.contract import declare_ufunc
declare_ufunc('near', ['int', 'int', 'int'], 'bool')     # near(channel, n, c): c is among the n nearest channels of `channel` = the result of get_closest_channels
declare_class('Template2D', None, fields={'ndim': 'int', 'colmax': 'arr[real]', 'colmin': 'arr[real]'})
declare_class('TemplateModel', M, fields={'channel_positions': 'arr[tuple[real,real]]', 'n_closest_channels': 'int', 'channel_shanks': 'arr[int]',
                                          'amplitude_threshold': 'real'})
contract('<lib>', 'Template2D.max', kind='assumed', params={'self': 'obj[Template2D]', 'axis': 'int'}, result='arr[real]',
    requires=['axis == 0'], ensures=['len(result) == len(self.colmax)', 'all(result[k] == self.colmax[k] for k in range(len(self.colmax)))'],
    note='per-channel maximum over samples of a (n_samples, n_channels) template')
contract('<lib>', 'Template2D.min', kind='assumed', params={'self': 'obj[Template2D]', 'axis': 'int'}, result='arr[real]',
    requires=['axis == 0'], ensures=['len(result) == len(self.colmin)', 'all(result[k] == self.colmin[k] for k in range(len(self.colmin)))'])

# link used by _find_best_channels: the callee's result DEFINES "the nearest channels of the peak channel"
from pyvc.contract import REGISTRY
_g = REGISTRY[(M, 'get_closest_channels')]
_g.defines.append(('near(channel,n,c)-is-membership-in-the-result-of-get_closest_channels(channel,n)', 'all(iff(near(channel_index, ite(n is None, 0, n), c), any(result[i] == c for i in range(len(result)))) for c in range(len(channel_positions)))'))

_AMP = '(template.colmax[%s] - template.colmin[%s])'
contract(M, 'TemplateModel._find_best_channels', props=['C05'],
    params={'template': 'obj[Template2D]', 'amplitude_threshold': 'opt[real]'}, defaults={'amplitude_threshold': 'None'},
    fields={'channel_positions': 'arr[tuple[real,real]]', 'n_closest_channels': 'int', 'channel_shanks': 'arr[int]', 'amplitude_threshold': 'real'},
    let={'nc': 'len(template.colmax)', 'thr': 'ite(amplitude_threshold is None, self.amplitude_threshold, amplitude_threshold)'},
    requires=[('two-dimensional', 'template.ndim == 2'),
              ('one-extreme-per-channel', 'len(template.colmin) == nc and nc >= 1 and all(template.colmax[k] >= template.colmin[k] for k in range(nc))'),
              ('geometry-covers-the-channels', 'len(self.channel_positions) == nc and len(self.channel_shanks) == nc'),
              ('positions-pairwise-distinct', DISTINCT_POS.replace('channel_positions', 'self.channel_positions')),
              ('neighbourhood-size-positive', 'self.n_closest_channels >= 1'),
              ('threshold-is-a-fraction', '0 <= thr and thr <= 1')],
    # stepping stones (each is an obligation proved at that point, then assumed): the peak channel survives every filtering step
    cuts=[('peak_channels =', 'peak-in-peak-channels', 'any(peak_channels[j] == best_channel for j in range(len(peak_channels)))'),
          ('channels_on_shank =', 'peak-on-its-shank', 'any(channels_on_shank[j] == best_channel for j in range(len(channels_on_shank)))'),
          ('close_channels = np.intersect1d', 'peak-in-close-and-shank', 'any(close_channels[j] == best_channel for j in range(len(close_channels)))'),
          ('channel_ids = np.intersect1d', 'peak-in-intersection', 'any(channel_ids[j] == best_channel for j in range(len(channel_ids)))'),
          ('peak_channels =', 'peak-channels-are-those-above-threshold', 'all(iff(any(peak_channels[j] == c for j in range(len(peak_channels))), (template.colmax[c] - template.colmin[c]) >= amplitude_threshold * (template.colmax[best_channel] - template.colmin[best_channel])) for c in range(len(template.colmax)))'),
          ('close_channels = np.intersect1d', 'close-channels-are-near-and-on-shank', 'all(iff(any(close_channels[j] == c for j in range(len(close_channels))), near(best_channel, self.n_closest_channels, c) and self.channel_shanks[c] == self.channel_shanks[best_channel]) for c in range(len(template.colmax)))'),
          ('channel_ids = np.intersect1d', 'members-before-ordering', 'all(iff(any(channel_ids[j] == c for j in range(len(channel_ids))), near(best_channel, self.n_closest_channels, c) and self.channel_shanks[c] == self.channel_shanks[best_channel] and (template.colmax[c] - template.colmin[c]) >= amplitude_threshold * (template.colmax[best_channel] - template.colmin[best_channel])) for c in range(len(template.colmax)))'),
          ('channel_ids = np.intersect1d', 'let:ids0', 'channel_ids'),
          ('order =', 'order-is-injective', 'all(order[i] != order[j] for i in range(len(order)) for j in range(i + 1, len(order)))'),
          ('channel_ids = channel_ids[order]', 'same-members-after-ordering', 'len(channel_ids) == len(ids0) and all(iff(any(channel_ids[j] == c for j in range(len(channel_ids))), any(ids0[j] == c for j in range(len(ids0)))) for c in range(len(template.colmax)))'),
          ('channel_ids = channel_ids[order]', 'members-after-ordering', 'all(iff(any(channel_ids[j] == c for j in range(len(channel_ids))), near(best_channel, self.n_closest_channels, c) and self.channel_shanks[c] == self.channel_shanks[best_channel] and (template.colmax[c] - template.colmin[c]) >= amplitude_threshold * (template.colmax[best_channel] - template.colmin[best_channel])) for c in range(len(template.colmax)))'),
          ('order =', 'order-is-onto', 'len(order) == len(channel_ids) and all(any(order[k] == p for k in range(len(order))) for p in range(len(order)))'),
          ('channel_ids = channel_ids[order]', 'peak-still-listed', 'any(channel_ids[j] == best_channel for j in range(len(channel_ids)))')],
    result='tuple[arr[int],arr[real],int]',
    ensures=[
        ('a-listed-channels-distinct', 'all(result[0][i] != result[0][j] for i in range(len(result[0])) for j in range(i + 1, len(result[0])))'),
        ('b-decreasing-peak-to-peak-amplitude', 'all(%s >= %s for i in range(len(result[0])) for j in range(i + 1, len(result[0])))' % (_AMP % ('result[0][i]', 'result[0][i]'), _AMP % ('result[0][j]', 'result[0][j]'))),
        ('c-peak-channel-attains-the-maximum-and-is-listed', '0 <= result[2] and result[2] < nc and all(%s <= %s for c in range(nc)) and any(result[0][j] == result[2] for j in range(len(result[0])))' % (_AMP % ('c', 'c'), _AMP % ('result[2]', 'result[2]'))),
        ('c-first-listed-channel-attains-the-peak-amplitude', 'len(result[0]) >= 1 and %s == %s' % (_AMP % ('result[0][0]', 'result[0][0]'), _AMP % ('result[2]', 'result[2]'))),
        ('d-amplitude-j-is-that-of-channel-j', 'len(result[1]) == len(result[0]) and all(result[1][j] == %s for j in range(len(result[0])))' % (_AMP % ('result[0][j]', 'result[0][j]'))),
        ('e-listed-are-exactly-near-same-shank-above-threshold',
         'all(iff(any(result[0][j] == c for j in range(len(result[0]))), near(result[2], self.n_closest_channels, c) and self.channel_shanks[c] == self.channel_shanks[result[2]] '
         'and %s >= thr * %s) for c in range(nc))' % (_AMP % ('c', 'c'), _AMP % ('result[2]', 'result[2]'))),
    ])
