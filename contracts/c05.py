"""C05 — template records are aligned with their channel list (DESIGN 4/C05)."""
from pyvc.contract import contract, declare_class

M = 'phylib/io/model.py'

DISTINCT_POS = 'all(channel_positions[i] != channel_positions[j] for i in range(len(channel_positions)) for j in range(i + 1, len(channel_positions)))'
contract(M, 'get_closest_channels', props=['C05'],
    params={'channel_positions': 'arr[tuple[real,real]]', 'channel_index': 'int', 'n': 'opt[int]'}, defaults={'n': 'None'},
    requires=[('channel-exists', '0 <= channel_index and channel_index < len(channel_positions)'),
              ('positions-pairwise-distinct', DISTINCT_POS),          # the loader replaces them otherwise (Appendix G)
              ('n-non-negative', 'n is None or n >= 0')],
    result='arr[int]',
    ensures=[('the-channel-itself-first', 'len(result) >= 1 and result[0] == channel_index'),
             ('channels-are-distinct-and-exist', 'all(0 <= result[i] and result[i] < len(channel_positions) for i in range(len(result))) and '
                                                 'all(result[i] != result[j] for i in range(len(result)) for j in range(i + 1, len(result)))'),
             ('at-most-n', 'implies(n is not None and n > 0, len(result) == min(n, len(channel_positions)))'),
             ('nearest-first', 'all(dist2(channel_positions, channel_index, result[i]) <= dist2(channel_positions, channel_index, result[j]) for i in range(len(result)) for j in range(i + 1, len(result)))'),
             ('listed-are-no-farther-than-unlisted', 'all(implies(all(result[i] != c for i in range(len(result))), all(dist2(channel_positions, channel_index, result[j]) <= dist2(channel_positions, channel_index, c) for j in range(len(result)))) for c in range(len(channel_positions)))'),
             ('all-channels-when-no-n', 'implies(n is None or n == 0, len(result) == len(channel_positions))')])

from pyvc.contract import declare_ufunc
declare_ufunc('near', ['int', 'int', 'int'], 'bool')     # near(channel, n, c): c is among the n nearest channels of `channel` = the result of get_closest_channels
declare_class('Template2D', None, fields={'ndim': 'int', 'colmax': 'arr[real]', 'colmin': 'arr[real]'})
declare_class('TemplateModel', M, fields={'channel_positions': 'arr[tuple[real,real]]', 'n_closest_channels': 'int', 'channel_shanks': 'arr[int]',
                                          'amplitude_threshold': 'real'})
contract('<lib>', 'Template2D.max', kind='assumed', params={'self': 'obj[Template2D]', 'axis': 'int'}, result='arr[real]',
    requires=['axis == 0'], ensures=['len(result) == len(self.colmax)', 'all(result[k] == self.colmax[k] for k in range(len(self.colmax)))'],
    note='per-channel maximum over samples of a (n_samples, n_channels) template')
contract('<lib>', 'Template2D.min', kind='assumed', params={'self': 'obj[Template2D]', 'axis': 'int'}, result='arr[real]',
    requires=['axis == 0'], ensures=['len(result) == len(self.colmin)', 'all(result[k] == self.colmin[k] for k in range(len(self.colmin)))'])

# link used by _find_best_channels: the callee's result DEFINES "the nearest channels of the peak channel"
from pyvc.contract import REGISTRY
_g = REGISTRY[(M, 'get_closest_channels')]
_g.defines.append(('near(channel,n,c)-is-membership-in-the-result-of-get_closest_channels(channel,n)', 'all(iff(near(channel_index, ite(n is None, 0, n), c), any(result[i] == c for i in range(len(result)))) for c in range(len(channel_positions)))'))

_AMP = '(template.colmax[%s] - template.colmin[%s])'
contract(M, 'TemplateModel._find_best_channels', props=['C05'],
    params={'template': 'obj[Template2D]', 'amplitude_threshold': 'opt[real]'}, defaults={'amplitude_threshold': 'None'},
    fields={'channel_positions': 'arr[tuple[real,real]]', 'n_closest_channels': 'int', 'channel_shanks': 'arr[int]', 'amplitude_threshold': 'real'},
    let={'nc': 'len(template.colmax)', 'thr': 'ite(amplitude_threshold is None, self.amplitude_threshold, amplitude_threshold)'},
    requires=[('two-dimensional', 'template.ndim == 2'),
              ('one-extreme-per-channel', 'len(template.colmin) == nc and nc >= 1 and all(template.colmax[k] >= template.colmin[k] for k in range(nc))'),
              ('geometry-covers-the-channels', 'len(self.channel_positions) == nc and len(self.channel_shanks) == nc'),
              ('positions-pairwise-distinct', DISTINCT_POS.replace('channel_positions', 'self.channel_positions')),
              ('neighbourhood-size-positive', 'self.n_closest_channels >= 1'),
              ('threshold-is-a-fraction', '0 <= thr and thr <= 1')],
    # stepping stones (each is an obligation proved at that point, then assumed): the peak channel survives every filtering step
    cuts=[('peak_channels =', 'peak-in-peak-channels', 'any(peak_channels[j] == best_channel for j in range(len(peak_channels)))'),
          ('channels_on_shank =', 'peak-on-its-shank', 'any(channels_on_shank[j] == best_channel for j in range(len(channels_on_shank)))'),
          ('close_channels = np.intersect1d', 'peak-in-close-and-shank', 'any(close_channels[j] == best_channel for j in range(len(close_channels)))'),
          ('channel_ids = np.intersect1d', 'peak-in-intersection', 'any(channel_ids[j] == best_channel for j in range(len(channel_ids)))'),
          ('peak_channels =', 'peak-channels-are-those-above-threshold', 'all(iff(any(peak_channels[j] == c for j in range(len(peak_channels))), (template.colmax[c] - template.colmin[c]) >= amplitude_threshold * (template.colmax[best_channel] - template.colmin[best_channel])) for c in range(len(template.colmax)))'),
          ('close_channels = np.intersect1d', 'close-channels-are-near-and-on-shank', 'all(iff(any(close_channels[j] == c for j in range(len(close_channels))), near(best_channel, self.n_closest_channels, c) and self.channel_shanks[c] == self.channel_shanks[best_channel]) for c in range(len(template.colmax)))'),
          ('channel_ids = np.intersect1d', 'members-before-ordering', 'all(iff(any(channel_ids[j] == c for j in range(len(channel_ids))), near(best_channel, self.n_closest_channels, c) and self.channel_shanks[c] == self.channel_shanks[best_channel] and (template.colmax[c] - template.colmin[c]) >= amplitude_threshold * (template.colmax[best_channel] - template.colmin[best_channel])) for c in range(len(template.colmax)))'),
          ('channel_ids = np.intersect1d', 'let:ids0', 'channel_ids'),
          ('order =', 'order-is-injective', 'all(order[i] != order[j] for i in range(len(order)) for j in range(i + 1, len(order)))'),
          ('channel_ids = channel_ids[order]', 'same-members-after-ordering', 'len(channel_ids) == len(ids0) and all(iff(any(channel_ids[j] == c for j in range(len(channel_ids))), any(ids0[j] == c for j in range(len(ids0)))) for c in range(len(template.colmax)))'),
          ('channel_ids = channel_ids[order]', 'members-after-ordering', 'all(iff(any(channel_ids[j] == c for j in range(len(channel_ids))), near(best_channel, self.n_closest_channels, c) and self.channel_shanks[c] == self.channel_shanks[best_channel] and (template.colmax[c] - template.colmin[c]) >= amplitude_threshold * (template.colmax[best_channel] - template.colmin[best_channel])) for c in range(len(template.colmax)))'),
          ('order =', 'order-is-onto', 'len(order) == len(channel_ids) and all(any(order[k] == p for k in range(len(order))) for p in range(len(order)))'),
          ('channel_ids = channel_ids[order]', 'peak-still-listed', 'any(channel_ids[j] == best_channel for j in range(len(channel_ids)))')],
    using={'order-is-onto': ['theory:np.argsort', 'theory:slice', 'theory:index'],
           'order-is-injective': ['theory:np.argsort', 'theory:slice', 'theory:index']},
    result='tuple[arr[int],arr[real],int]',
    ensures=[
        ('a-listed-channels-exist', 'all(0 <= result[0][j] and result[0][j] < nc for j in range(len(result[0])))'),
        ('a-listed-channels-distinct', 'all(result[0][i] != result[0][j] for i in range(len(result[0])) for j in range(i + 1, len(result[0])))'),
        ('b-decreasing-peak-to-peak-amplitude', 'all(%s >= %s for i in range(len(result[0])) for j in range(i + 1, len(result[0])))' % (_AMP % ('result[0][i]', 'result[0][i]'), _AMP % ('result[0][j]', 'result[0][j]'))),
        ('c-peak-channel-attains-the-maximum-and-is-listed', '0 <= result[2] and result[2] < nc and all(%s <= %s for c in range(nc)) and any(result[0][j] == result[2] for j in range(len(result[0])))' % (_AMP % ('c', 'c'), _AMP % ('result[2]', 'result[2]'))),
        ('c-first-listed-channel-attains-the-peak-amplitude', 'len(result[0]) >= 1 and %s == %s' % (_AMP % ('result[0][0]', 'result[0][0]'), _AMP % ('result[2]', 'result[2]'))),
        ('d-amplitude-j-is-that-of-channel-j', 'len(result[1]) == len(result[0]) and all(result[1][j] == %s for j in range(len(result[0])))' % (_AMP % ('result[0][j]', 'result[0][j]'))),
        ('e-listed-are-exactly-near-same-shank-above-threshold',
         'all(iff(any(result[0][j] == c for j in range(len(result[0]))), near(result[2], self.n_closest_channels, c) and self.channel_shanks[c] == self.channel_shanks[result[2]] '
         'and %s >= thr * %s) for c in range(nc))' % (_AMP % ('c', 'c'), _AMP % ('result[2]', 'result[2]'))),
    ])

# =========================================================================================================================
# _get_template_dense: the record plumbing.  A (n_samples, n_channels) template is seen through its per-channel extremes (Template2D);
# the NumPy operations on it are assumed contracts (column selection permutes the extremes, astype/unwhitening return another template
# of the same width).  What is PROVED is which amplitude / channel list / waveform columns end up together in the record.
# =========================================================================================================================
T2 = {'ndim': 'int', 'colmax': 'arr[real]', 'colmin': 'arr[real]', 'shape': 'tuple[int,int]'}
declare_class('Template2D', None, fields=T2)
_T2OK = lambda t: '%s.ndim == 2 and len(%s.colmin) == len(%s.colmax) and %s.shape[1] == len(%s.colmax) and all(%s.colmax[k] >= %s.colmin[k] for k in range(len(%s.colmax)))' % ((t,) * 8)
declare_class('TemplateStack', None, fields={'n': 'int', 'width': 'int'})
declare_class('DenseStore', None, fields={'data': 'obj[TemplateStack]'})
declare_class('TemplateRecord', None, fields={'template': 'obj[Template2D]', 'amplitude': 'arr[real]', 'best_channel': 'int', 'channel_ids': 'arr[int]'})
contract('<lib>', 'TemplateStack.__getitem__', kind='assumed', params={'self': 'obj[TemplateStack]', 'i': 'int'}, result='obj[Template2D]',
    requires=['0 <= i and i < self.n'], ensures=[_T2OK('result'), 'len(result.colmax) == self.width'], note='templates[i, ...]: the (n_samples, n_channels) waveform of template i')
contract(M, 'TemplateModel._unwhiten', kind='assumed', params={'self': 'obj[TemplateModel]', 'x': 'obj[Template2D]'}, result='obj[Template2D]',
    requires=[_T2OK('x')], ensures=[_T2OK('result'), 'len(result.colmax) == len(x.colmax)'], note='np.dot(x, wmi) * scaling: same shape (values are not specified)')
contract('<lib>', 'Template2D.astype', kind='assumed', params={'self': 'obj[Template2D]', 'dtype': 'elem'}, result='obj[Template2D]',
    requires=[_T2OK('self')], ensures=[_T2OK('result'), 'len(result.colmax) == len(self.colmax)'], note='a cast keeps the shape (values are rounded)')
contract('<lib>', 'Template2D.__getitem__', kind='assumed', params={'self': 'obj[Template2D]', 'item': 'tuple[slice[none,none,none],arr[int]]'}, result='obj[Template2D]',
    requires=[_T2OK('self'), 'all(0 <= item[1][j] and item[1][j] < len(self.colmax) for j in range(len(item[1])))'],
    ensures=[_T2OK('result'), 'len(result.colmax) == len(item[1])', 'all(result.colmax[j] == self.colmax[item[1][j]] and result.colmin[j] == self.colmin[item[1][j]] for j in range(len(item[1])))'],
    note='t[:, ids]: column j of the result is column ids[j] of t (so are its extremes)')
contract('<lib>', 'Bunch', kind='assumed', params={}, kwargs='kw', cases=[{'kw': 'rec[template:obj[Template2D],amplitude:arr[real],best_channel:int,channel_ids:arr[int]]'}], result='obj[TemplateRecord]',
    result_from={'fields_of': 'kw', 'cls': 'TemplateRecord'}, ensures=[], note='Bunch(**kw): a record whose attributes are the given values (same objects)')

_RAMP = '(result.template.colmax[%s] - result.template.colmin[%s])'
contract(M, 'TemplateModel._get_template_dense', props=['C05'],
    params={'template_id': 'int', 'channel_ids': 'opt[arr[int]]', 'amplitude_threshold': 'opt[real]', 'unwhiten': 'bool'},
    defaults={'channel_ids': 'None', 'amplitude_threshold': 'None', 'unwhiten': 'True'},
    fields={'sparse_templates': 'obj[DenseStore]', 'channel_positions': 'arr[tuple[real,real]]', 'n_closest_channels': 'int', 'channel_shanks': 'arr[int]', 'amplitude_threshold': 'real'},
    let={'nc': 'self.sparse_templates.data.width', 'thr': 'ite(amplitude_threshold is None, self.amplitude_threshold, amplitude_threshold)'},
    requires=[('template-exists', '0 <= template_id and template_id < self.sparse_templates.data.n'),
              ('geometry-covers-the-channels', 'nc >= 1 and len(self.channel_positions) == nc and len(self.channel_shanks) == nc'),
              ('positions-pairwise-distinct', DISTINCT_POS.replace('channel_positions', 'self.channel_positions')),
              ('neighbourhood-size-positive', 'self.n_closest_channels >= 1'),
              ('threshold-is-a-fraction', '0 <= thr and thr <= 1'),
              ('explicit-channels-exist', 'implies(channel_ids is not None, all(0 <= channel_ids[j] and channel_ids[j] < nc for j in range(len(channel_ids))))')],
    result='obj[TemplateRecord]',
    # from the statement: "column j of the returned waveform is the template on the j-th listed channel and entry j of the amplitude vector is
    # that column's peak-to-peak amplitude"; "(or the caller's explicit list)"
    ensures=[('one-column-and-one-amplitude-per-listed-channel', 'len(result.amplitude) == len(result.channel_ids) and len(result.template.colmax) == len(result.channel_ids) and result.template.ndim == 2'),
             ('amplitude-j-is-the-peak-to-peak-of-column-j', 'all(result.amplitude[j] == %s for j in range(len(result.channel_ids)))' % (_RAMP % ('j', 'j'))),
             ('explicit-list-is-returned-as-given', 'implies(channel_ids is not None, result.channel_ids is channel_ids)'),
             ('automatic-list-is-not-empty', 'implies(channel_ids is None, len(result.channel_ids) >= 1)'),
             ('automatic-list-amplitudes-decrease', 'implies(channel_ids is None, all(result.amplitude[i] >= result.amplitude[j] for i in range(len(result.amplitude)) for j in range(i + 1, len(result.amplitude))))'),
             ('automatic-list-distinct-channels-in-range', 'implies(channel_ids is None, all(0 <= result.channel_ids[i] and result.channel_ids[i] < nc for i in range(len(result.channel_ids))) and all(result.channel_ids[i] != result.channel_ids[j] for i in range(len(result.channel_ids)) for j in range(i + 1, len(result.channel_ids))))'),
             ('peak-channel-is-listed-when-automatic', 'implies(channel_ids is None, any(result.channel_ids[j] == result.best_channel for j in range(len(result.channel_ids))))')])
