"""C05 — template records are aligned with their channel list (DESIGN 4/C05)."""
from pyvc.contract import contract, declare_class

M = 'phylib/io/model.py'

DISTINCT_POS = 'all(channel_positions[i] != channel_positions[j] for i in range(len(channel_positions)) for j in range(i + 1, len(channel_positions)))'
contract(M, 'get_closest_channels', props=['C05'],
    params={'channel_positions': 'arr[tuple[real,real]]', 'channel_index': 'int', 'n': 'opt[int]'}, defaults={'n': 'None'},
    requires=[('channel-exists', '0 <= channel_index and channel_index < len(channel_positions)'),
              ('positions-pairwise-distinct', DISTINCT_POS),          # the loader replaces them otherwise (Appendix G)
              ('n-non-negative', 'n is None or n >= 0')],
    result='arr[int]',
    ensures=[('the-channel-itself-first', 'len(result) >= 1 and result[0] == channel_index'),
             ('channels-are-distinct-and-exist', 'all(0 <= result[i] and result[i] < len(channel_positions) for i in range(len(result))) and '
                                                 'all(result[i] != result[j] for i in range(len(result)) for j in range(i + 1, len(result)))'),
             ('at-most-n', 'implies(n is not None and n > 0, len(result) == min(n, len(channel_positions)))'),
             ('nearest-first', 'all(dist2(channel_positions, channel_index, result[i]) <= dist2(channel_positions, channel_index, result[j]) for i in range(len(result)) for j in range(i + 1, len(result)))'),
             ('listed-are-no-farther-than-unlisted', 'all(implies(all(result[i] != c for i in range(len(result))), all(dist2(channel_positions, channel_index, result[j]) <= dist2(channel_positions, channel_index, c) for j in range(len(result)))) for c in range(len(channel_positions)))'),
             ('all-channels-when-no-n', 'implies(n is None or n == 0, len(result) == len(channel_positions))')])

from pyvc.contract import declare_ufunc
declare_ufunc('near', ['int', 'int', 'int'], 'bool')     # near(channel, n, c): c is among the n nearest channels of `channel` = the result of get_closest_channels
declare_class('Template2D', None, fields={'ndim': 'int', 'colmax': 'arr[real]', 'colmin': 'arr[real]'})
declare_class('TemplateModel', M, fields={'channel_positions': 'arr[tuple[real,real]]', 'n_closest_channels': 'int', 'channel_shanks': 'arr[int]',
                                          'amplitude_threshold': 'real'})
contract('<lib>', 'Template2D.max', kind='assumed', params={'self': 'obj[Template2D]', 'axis': 'int'}, result='arr[real]',
    requires=['axis == 0'], ensures=['len(result) == len(self.colmax)', 'all(result[k] == self.colmax[k] for k in range(len(self.colmax)))'],
    note='per-channel maximum over samples of a (n_samples, n_channels) template')
contract('<lib>', 'Template2D.min', kind='assumed', params={'self': 'obj[Template2D]', 'axis': 'int'}, result='arr[real]',
    requires=['axis == 0'], ensures=['len(result) == len(self.colmin)', 'all(result[k] == self.colmin[k] for k in range(len(self.colmin)))'])

# link used by _find_best_channels: the callee's result DEFINES "the nearest channels of the peak channel"
from pyvc.contract import REGISTRY
_g = REGISTRY[(M, 'get_closest_channels')]
_g.defines.append(('near(channel,n,c)-is-membership-in-the-result-of-get_closest_channels(channel,n)', 'all(iff(near(channel_index, ite(n is None, 0, n), c), any(result[i] == c for i in range(len(result)))) for c in range(len(channel_positions)))'))

_AMP = '(template.colmax[%s] - template.colmin[%s])'
contract(M, 'TemplateModel._find_best_channels', props=['C05'],
    params={'template': 'obj[Template2D]', 'amplitude_threshold': 'opt[real]'}, defaults={'amplitude_threshold': 'None'},
    fields={'channel_positions': 'arr[tuple[real,real]]', 'n_closest_channels': 'int', 'channel_shanks': 'arr[int]', 'amplitude_threshold': 'real'},
    let={'nc': 'len(template.colmax)', 'thr': 'ite(amplitude_threshold is None, self.amplitude_threshold, amplitude_threshold)'},
    requires=[('two-dimensional', 'template.ndim == 2'),
              ('one-extreme-per-channel', 'len(template.colmin) == nc and nc >= 1 and all(template.colmax[k] >= template.colmin[k] for k in range(nc))'),
              ('geometry-covers-the-channels', 'len(self.channel_positions) == nc and len(self.channel_shanks) == nc'),
              ('positions-pairwise-distinct', DISTINCT_POS.replace('channel_positions', 'self.channel_positions')),
              ('neighbourhood-size-positive', 'self.n_closest_channels >= 1'),
              ('threshold-is-a-fraction', '0 <= thr and thr <= 1')],
    # stepping stones (each is an obligation proved at that point, then assumed): the peak channel survives every filtering step
    cuts=[('peak_channels =', 'peak-in-peak-channels', 'any(peak_channels[j] == best_channel for j in range(len(peak_channels)))'),
          ('channels_on_shank =', 'peak-on-its-shank', 'any(channels_on_shank[j] == best_channel for j in range(len(channels_on_shank)))'),
          ('close_channels = np.intersect1d', 'peak-in-close-and-shank', 'any(close_channels[j] == best_channel for j in range(len(close_channels)))'),
          ('channel_ids = np.intersect1d', 'peak-in-intersection', 'any(channel_ids[j] == best_channel for j in range(len(channel_ids)))'),
          ('peak_channels =', 'peak-channels-are-those-above-threshold', 'all(iff(any(peak_channels[j] == c for j in range(len(peak_channels))), (template.colmax[c] - template.colmin[c]) >= amplitude_threshold * (template.colmax[best_channel] - template.colmin[best_channel])) for c in range(len(template.colmax)))'),
          ('close_channels = np.intersect1d', 'close-channels-are-near-and-on-shank', 'all(iff(any(close_channels[j] == c for j in range(len(close_channels))), near(best_channel, self.n_closest_channels, c) and self.channel_shanks[c] == self.channel_shanks[best_channel]) for c in range(len(template.colmax)))'),
          ('channel_ids = np.intersect1d', 'members-before-ordering', 'all(iff(any(channel_ids[j] == c for j in range(len(channel_ids))), near(best_channel, self.n_closest_channels, c) and self.channel_shanks[c] == self.channel_shanks[best_channel] and (template.colmax[c] - template.colmin[c]) >= amplitude_threshold * (template.colmax[best_channel] - template.colmin[best_channel])) for c in range(len(template.colmax)))'),
          ('channel_ids = np.intersect1d', 'let:ids0', 'channel_ids'),
          ('order =', 'order-is-injective', 'all(order[i] != order[j] for i in range(len(order)) for j in range(i + 1, len(order)))'),
          ('channel_ids = channel_ids[order]', 'same-members-after-ordering', 'len(channel_ids) == len(ids0) and all(iff(any(channel_ids[j] == c for j in range(len(channel_ids))), any(ids0[j] == c for j in range(len(ids0)))) for c in range(len(template.colmax)))'),
          ('channel_ids = channel_ids[order]', 'members-after-ordering', 'all(iff(any(channel_ids[j] == c for j in range(len(channel_ids))), near(best_channel, self.n_closest_channels, c) and self.channel_shanks[c] == self.channel_shanks[best_channel] and (template.colmax[c] - template.colmin[c]) >= amplitude_threshold * (template.colmax[best_channel] - template.colmin[best_channel])) for c in range(len(template.colmax)))'),
          ('order =', 'order-is-onto', 'len(order) == len(channel_ids) and all(any(order[k] == p for k in range(len(order))) for p in range(len(order)))'),
          ('channel_ids = channel_ids[order]', 'peak-still-listed', 'any(channel_ids[j] == best_channel for j in range(len(channel_ids)))')],
    using={'order-is-onto': ['theory:np.argsort', 'theory:slice', 'theory:index'],
           'order-is-injective': ['theory:np.argsort', 'theory:slice', 'theory:index']},
    result='tuple[arr[int],arr[real],int]',
    ensures=[
        ('a-listed-channels-exist', 'all(0 <= result[0][j] and result[0][j] < nc for j in range(len(result[0])))'),
        ('a-listed-channels-distinct', 'all(result[0][i] != result[0][j] for i in range(len(result[0])) for j in range(i + 1, len(result[0])))'),
        ('b-decreasing-peak-to-peak-amplitude', 'all(%s >= %s for i in range(len(result[0])) for j in range(i + 1, len(result[0])))' % (_AMP % ('result[0][i]', 'result[0][i]'), _AMP % ('result[0][j]', 'result[0][j]'))),
        ('c-peak-channel-attains-the-maximum-and-is-listed', '0 <= result[2] and result[2] < nc and all(%s <= %s for c in range(nc)) and any(result[0][j] == result[2] for j in range(len(result[0])))' % (_AMP % ('c', 'c'), _AMP % ('result[2]', 'result[2]'))),
        ('c-first-listed-channel-attains-the-peak-amplitude', 'len(result[0]) >= 1 and %s == %s' % (_AMP % ('result[0][0]', 'result[0][0]'), _AMP % ('result[2]', 'result[2]'))),
        ('d-amplitude-j-is-that-of-channel-j', 'len(result[1]) == len(result[0]) and all(result[1][j] == %s for j in range(len(result[0])))' % (_AMP % ('result[0][j]', 'result[0][j]'))),
        ('e-listed-are-exactly-near-same-shank-above-threshold',
         'all(iff(any(result[0][j] == c for j in range(len(result[0]))), near(result[2], self.n_closest_channels, c) and self.channel_shanks[c] == self.channel_shanks[result[2]] '
         'and %s >= thr * %s) for c in range(nc))' % (_AMP % ('c', 'c'), _AMP % ('result[2]', 'result[2]'))),
    ])

# =========================================================================================================================
# _get_template_dense: the record plumbing.  A (n_samples, n_channels) template is seen through its per-channel extremes (Template2D);
# the NumPy operations on it are assumed contracts (column selection permutes the extremes, astype/unwhitening return another template
# of the same width).  What is PROVED is which amplitude / channel list / waveform columns end up together in the record.
# =========================================================================================================================
T2 = {'ndim': 'int', 'colmax': 'arr[real]', 'colmin': 'arr[real]', 'shape': 'tuple[int,int]'}
declare_class('Template2D', None, fields=T2)
_T2OK = lambda t: '%s.ndim == 2 and len(%s.colmin) == len(%s.colmax) and %s.shape[1] == len(%s.colmax) and all(%s.colmax[k] >= %s.colmin[k] for k in range(len(%s.colmax)))' % ((t,) * 8)
declare_class('TemplateStack', None, fields={'n': 'int', 'width': 'int'})
declare_class('DenseStore', None, fields={'data': 'obj[TemplateStack]'})
declare_class('TemplateRecord', None, fields={'template': 'obj[Template2D]', 'amplitude': 'arr[real]', 'best_channel': 'int', 'channel_ids': 'arr[int]'})
contract('<lib>', 'TemplateStack.__getitem__', kind='assumed', params={'self': 'obj[TemplateStack]', 'i': 'int'}, result='obj[Template2D]',
    requires=['0 <= i and i < self.n'], ensures=[_T2OK('result'), 'len(result.colmax) == self.width'], note='templates[i, ...]: the (n_samples, n_channels) waveform of template i')
contract(M, 'TemplateModel._unwhiten', kind='assumed', params={'self': 'obj[TemplateModel]', 'x': 'obj[Template2D]'}, result='obj[Template2D]',
    requires=[_T2OK('x')], ensures=[_T2OK('result'), 'len(result.colmax) == len(x.colmax)'], note='np.dot(x, wmi) * scaling: same shape (values are not specified)')
contract('<lib>', 'Template2D.astype', kind='assumed', params={'self': 'obj[Template2D]', 'dtype': 'elem'}, result='obj[Template2D]',
    requires=[_T2OK('self')], ensures=[_T2OK('result'), 'len(result.colmax) == len(self.colmax)'], note='a cast keeps the shape (values are rounded)')
contract('<lib>', 'Template2D.__getitem__', kind='assumed', params={'self': 'obj[Template2D]', 'item': 'tuple[slice[none,none,none],arr[int]]'}, result='obj[Template2D]',
    requires=[_T2OK('self'), 'all(0 <= item[1][j] and item[1][j] < len(self.colmax) for j in range(len(item[1])))'],
    ensures=[_T2OK('result'), 'len(result.colmax) == len(item[1])', 'all(result.colmax[j] == self.colmax[item[1][j]] and result.colmin[j] == self.colmin[item[1][j]] for j in range(len(item[1])))'],
    note='t[:, ids]: column j of the result is column ids[j] of t (so are its extremes)')
contract('<lib>', 'Bunch', kind='assumed', params={}, kwargs='kw', cases=[{'kw': 'rec[template:obj[Template2D],amplitude:arr[real],best_channel:int,channel_ids:arr[int]]'}], result='obj[TemplateRecord]',
    result_from={'fields_of': 'kw', 'cls': 'TemplateRecord'}, ensures=[], note='Bunch(**kw): a record whose attributes are the given values (same objects)')

_RAMP = '(result.template.colmax[%s] - result.template.colmin[%s])'
contract(M, 'TemplateModel._get_template_dense', props=['C05'],
    params={'template_id': 'int', 'channel_ids': 'opt[arr[int]]', 'amplitude_threshold': 'opt[real]', 'unwhiten': 'bool'},
    defaults={'channel_ids': 'None', 'amplitude_threshold': 'None', 'unwhiten': 'True'},
    fields={'sparse_templates': 'obj[DenseStore]', 'channel_positions': 'arr[tuple[real,real]]', 'n_closest_channels': 'int', 'channel_shanks': 'arr[int]', 'amplitude_threshold': 'real'},
    let={'nc': 'self.sparse_templates.data.width', 'thr': 'ite(amplitude_threshold is None, self.amplitude_threshold, amplitude_threshold)'},
    requires=[('template-exists', '0 <= template_id and template_id < self.sparse_templates.data.n'),
              ('geometry-covers-the-channels', 'nc >= 1 and len(self.channel_positions) == nc and len(self.channel_shanks) == nc'),
              ('positions-pairwise-distinct', DISTINCT_POS.replace('channel_positions', 'self.channel_positions')),
              ('neighbourhood-size-positive', 'self.n_closest_channels >= 1'),
              ('threshold-is-a-fraction', '0 <= thr and thr <= 1'),
              ('explicit-channels-exist', 'implies(channel_ids is not None, all(0 <= channel_ids[j] and channel_ids[j] < nc for j in range(len(channel_ids))))')],
    result='obj[TemplateRecord]',
    # from the statement: "column j of the returned waveform is the template on the j-th listed channel and entry j of the amplitude vector is
    # that column's peak-to-peak amplitude"; "(or the caller's explicit list)"
    ensures=[('one-column-and-one-amplitude-per-listed-channel', 'len(result.amplitude) == len(result.channel_ids) and len(result.template.colmax) == len(result.channel_ids) and result.template.ndim == 2'),
             ('amplitude-j-is-the-peak-to-peak-of-column-j', 'all(result.amplitude[j] == %s for j in range(len(result.channel_ids)))' % (_RAMP % ('j', 'j'))),
             ('explicit-list-is-returned-as-given', 'implies(channel_ids is not None, len(result.channel_ids) == len(channel_ids) and all(result.channel_ids[j] == channel_ids[j] for j in range(len(channel_ids))))'),
             ('automatic-list-is-not-empty', 'implies(channel_ids is None, len(result.channel_ids) >= 1)'),
             ('automatic-list-amplitudes-decrease', 'implies(channel_ids is None, all(result.amplitude[i] >= result.amplitude[j] for i in range(len(result.amplitude)) for j in range(i + 1, len(result.amplitude))))'),
             ('automatic-list-distinct-channels-in-range', 'implies(channel_ids is None, all(0 <= result.channel_ids[i] and result.channel_ids[i] < nc for i in range(len(result.channel_ids))) and all(result.channel_ids[i] != result.channel_ids[j] for i in range(len(result.channel_ids)) for j in range(i + 1, len(result.channel_ids))))'),
             ('peak-channel-is-listed-when-automatic', 'implies(channel_ids is None, any(result.channel_ids[j] == result.best_channel for j in range(len(result.channel_ids))))')])

# =========================================================================================================================
# _get_template_sparse: stored (n_samples, n_channels_loc) template + column table row; rank-2 theory of pyvc/mat.py.
# The stored values are tval(stack, template, sample, column) (uninterpreted: any template set).
# =========================================================================================================================
declare_ufunc('tval', ['int', 'int', 'int', 'int'], 'real')
declare_class('TemplateStackM', None, fields={'uid': 'int', 'n': 'int', 'n_samples': 'int', 'width': 'int'})
declare_class('SparseStore', None, fields={'data': 'obj[TemplateStackM]', 'cols': 'mat[int]'})
declare_class('TemplateRecordM', None, fields={'template': 'mat[real]', 'amplitude': 'arr[real]', 'best_channel': 'int', 'channel_ids': 'arr[int]'})
contract('<lib>', 'TemplateStackM.__getitem__', kind='assumed', params={'self': 'obj[TemplateStackM]', 'i': 'int'}, result='mat[real]',
    requires=['0 <= i and i < self.n'],
    ensures=['len(result) == self.n_samples and width(result) == self.width', 'all(all(result[s][c] == tval(self.uid, i, s, c) for c in range(self.width)) for s in range(self.n_samples))'],
    note='templates[i]: the stored (n_samples, n_channels_loc) waveform of template i')
contract(M, 'TemplateModel._unwhiten', variant='matrix', kind='assumed', params={'self': 'obj[TemplateModel]', 'x': 'mat[real]', 'channel_ids': 'arr[int]'}, result='mat[real]',
    requires=['width(x) == len(channel_ids)'], ensures=['same_lengths(result, x)'], note='np.dot(x, wmi[ix_(ids, ids)]) * scaling: same shape (values are not specified)')
contract('<lib>', 'Bunch', variant='matrix-record', kind='assumed', params={}, kwargs='kw', cases=[{'kw': 'rec[template:mat[real],amplitude:arr[real],best_channel:int,channel_ids:arr[int]]'}], result='obj[TemplateRecordM]',
    result_from={'fields_of': 'kw', 'cls': 'TemplateRecordM'}, ensures=[])

_SD, _SC = 'self.sparse_templates.data', 'self.sparse_templates.cols'
_TV = lambda s, c: 'tval(%s.uid, template_id, %s, %s)' % (_SD, s, c)
_ABS = lambda x: 'ite(%s >= 0, %s, -(%s))' % (x, x, x)
# "signal-free": the column's largest magnitude does not exceed 1e-6 of the largest magnitude of the whole stored template
_SIGDEF = lambda c: ('any(all(all(%s > 0.000001 * %s for c2 in range(%s.width)) for s2 in range(%s.n_samples)) for s1 in range(%s.n_samples))'
                     % (_ABS(_TV('s1', c)), _ABS(_TV('s2', 'c2')), _SD, _SD, _SD))
declare_ufunc('sig', ['int', 'int', 'int'], 'bool')      # sig(stack, template, column): DEFINED below (requires 'definition-of-signal') as "the column carries signal"
_SIGNAL = lambda c: 'sig(%s.uid, template_id, %s)' % (_SD, c)
_KEPT = lambda c: '(%s[template_id][%s] != -1 and %s)' % (_SC, c, _SIGNAL(c))
contract(M, 'TemplateModel._get_template_sparse', props=['C05'], params={'template_id': 'int', 'unwhiten': 'bool'}, defaults={'unwhiten': 'True'},
    fields={'sparse_templates': 'obj[SparseStore]'},
    requires=[('template-exists', '0 <= template_id and template_id < %s.n and len(%s) == %s.n and width(%s) == %s.width and %s.n_samples >= 1 and %s.width >= 1' % (_SD, _SC, _SD, _SC, _SD, _SD, _SD)),
              # a definition, not a restriction: sig is otherwise uninterpreted (conservative extension; it keeps the quantifier alternation out of the other clauses)
              ('definition-of-signal', 'all(iff(%s, %s) for c in range(%s.width))' % (_SIGNAL('c'), _SIGDEF('c'), _SD)),
              ('stored-channel-ids-at-least-minus-1', 'all(%s[template_id][c] >= -1 for c in range(%s.width))' % (_SC, _SD)),
              ('some-stored-channel-is-used-and-has-signal', 'any(%s for c in range(%s.width))' % (_KEPT('c'), _SD))],      # otherwise ValueError: known finding
    result='obj[TemplateRecordM]',
    cuts=[('template_max = np.abs', 'column-magnitudes', 'len(template_max) == %s.width and all(all(%s <= template_max[c] for s in range(%s.n_samples)) and any(%s == template_max[c] for s in range(%s.n_samples)) for c in range(%s.width))' % (_SD, _ABS(_TV('s', 'c')), _SD, _ABS(_TV('s', 'c')), _SD, _SD)),
          ('has_signal =', 'signal-flag-means-signal', 'len(has_signal) == %s.width and all(iff(has_signal[c], %s) for c in range(%s.width))' % (_SD, _SIGNAL('c'), _SD)),
          ('template_w = template_w[:, has_signal]', 'columns-with-signal', 'width(template_w) == len(channel_ids) and len(template_w) == %s.n_samples and all(any(%s[template_id][c] == channel_ids[j] and %s and all(template_w[s][j] == %s for s in range(%s.n_samples)) for c in range(%s.width)) for j in range(len(channel_ids)))' % (_SD, _SC, _SIGNAL('c'), _TV('s', 'c'), _SD, _SD)),
          ('template_w = template_w[:, has_signal]', 'every-column-with-signal-is-kept', 'all(implies(%s, any(channel_ids[j] == %s[template_id][c] for j in range(len(channel_ids)))) for c in range(%s.width))' % (_SIGNAL('c'), _SC, _SD)),
          ('channel_ids = channel_ids[used]', 'kept-columns', 'width(template_w) == len(channel_ids) and len(template_w) == %s.n_samples and all(any(%s[template_id][c] == channel_ids[j] and %s and all(template_w[s][j] == %s for s in range(%s.n_samples)) for c in range(%s.width)) for j in range(len(channel_ids)))' % (_SD, _SC, _KEPT('c'), _TV('s', 'c'), _SD, _SD)),
          ('channel_ids = channel_ids[used]', 'every-kept-column-is-there', 'all(implies(%s, any(channel_ids[j] == %s[template_id][c] for j in range(len(channel_ids)))) for c in range(%s.width))' % (_KEPT('c'), _SC, _SD)),
          ('amplitude = template.max', 'amplitudes-bound-the-column-differences', 'len(amplitude) == width(template) and all(all(all(amplitude[j] >= template[s1][j] - template[s2][j] for s2 in range(len(template))) for s1 in range(len(template))) for j in range(len(amplitude)))'),
          ('amplitude = template.max', 'amplitudes-are-attained', 'all(any(any(amplitude[j] == template[s1][j] - template[s2][j] for s2 in range(len(template))) for s1 in range(len(template))) for j in range(len(amplitude)))'),
          ('channels_reordered =', 'reordering-is-a-permutation', 'len(channels_reordered) == len(amplitude) and all(0 <= channels_reordered[k] and channels_reordered[k] < len(amplitude) for k in range(len(channels_reordered))) and all(any(channels_reordered[k] == p for k in range(len(channels_reordered))) for p in range(len(amplitude))) and '
           # (the same fact once more over the positions of channel_ids: the instantiation engine draws candidates for p from the array whose length bounds it)
           'len(channel_ids) == len(amplitude) and all(any(channels_reordered[k] == p for k in range(len(channels_reordered))) for p in range(len(channel_ids)))')],
    using={'signal-flag-means-signal': ['column-magnitudes', 'definition-of-signal', 'theory:ndarray.max', 'theory:elementwise'],
           'column-magnitudes': ['theory:np.abs', 'theory:ndarray.max'],
           'peak-channel-is-listed-with-the-largest-amplitude': ['theory:np.argmax', 'reordering-is-a-permutation', 'theory:index', 'theory:ndarray.astype'],
           'listed-channels-are-stored-used-and-carry-signal': ['kept-columns', 'reordering-is-a-permutation', 'theory:index'],
           'every-used-stored-channel-with-signal-is-listed': ['every-kept-column-is-there', 'reordering-is-a-permutation', 'theory:index'],
           'amplitude-j-bounds-every-difference-in-column-j': ['amplitudes-bound-the-column-differences', 'reordering-is-a-permutation', 'theory:index'],
           'amplitude-j-is-attained-in-column-j': ['amplitudes-are-attained', 'reordering-is-a-permutation', 'theory:index'],
           'reordering-is-a-permutation': ['theory:np.argsort', 'theory:slice']},
    ensures=[('one-column-and-one-amplitude-per-listed-channel', 'len(result.amplitude) == len(result.channel_ids) and width(result.template) == len(result.channel_ids) and len(result.template) == %s.n_samples' % _SD),
             # "entry j of the amplitude vector is that column's peak-to-peak amplitude"
             # (the largest difference of two samples of the column: an upper bound of every difference, and attained)
             ('amplitude-j-bounds-every-difference-in-column-j', 'all(all(all(result.amplitude[j] >= result.template[s1][j] - result.template[s2][j] for s2 in range(len(result.template))) for s1 in range(len(result.template))) for j in range(len(result.channel_ids)))'),
             ('amplitude-j-is-attained-in-column-j', 'all(any(any(result.amplitude[j] == result.template[s1][j] - result.template[s2][j] for s2 in range(len(result.template))) for s1 in range(len(result.template))) for j in range(len(result.channel_ids)))'),
             ('decreasing-peak-to-peak-amplitude', 'all(result.amplitude[i] >= result.amplitude[j] for i in range(len(result.amplitude)) for j in range(i + 1, len(result.amplitude)))'),
             # "with sparse storage they are the stored channels minus unused (-1) and signal-free ones"
             ('listed-channels-are-stored-used-and-carry-signal', 'all(any(%s[template_id][c] == result.channel_ids[j] and %s for c in range(%s.width)) for j in range(len(result.channel_ids)))' % (_SC, _KEPT('c'), _SD)),
             ('every-used-stored-channel-with-signal-is-listed', 'all(implies(%s, any(result.channel_ids[j] == %s[template_id][c] for j in range(len(result.channel_ids)))) for c in range(%s.width))' % (_KEPT('c'), _SC, _SD)),
             # "column j of the returned waveform is the (optionally unwhitened) template on the j-th listed channel" (whitened request: the stored column itself)
             ('whitened-request-returns-the-stored-columns', 'implies(not unwhiten, all(any(%s[template_id][c] == result.channel_ids[j] and all(result.template[s][j] == %s for s in range(%s.n_samples)) for c in range(%s.width)) for j in range(len(result.channel_ids))))' % (_SC, _TV('s', 'c'), _SD, _SD)),
             ('peak-channel-is-listed-with-the-largest-amplitude', 'any(result.channel_ids[j] == result.best_channel and all(result.amplitude[j] >= result.amplitude[i] for i in range(len(result.amplitude))) for j in range(len(result.channel_ids)))')])

# get_template: "With dense storage ...; with sparse storage ..." - the dispatch on the storage layout; each variant re-states the
# postcondition of the route it must take (taken programmatically from the route's contract, so the two cannot drift apart)
_cd = REGISTRY[(M, 'TemplateModel._get_template_dense')]
_cs = REGISTRY[(M, 'TemplateModel._get_template_sparse')]
declare_class('DenseStore', None, fields={'data': 'obj[TemplateStack]', 'cols': 'none'})
contract(M, 'TemplateModel.get_template', variant='dense-storage', props=['C05'],
    params=dict(_cd.params), defaults=dict(_cd.defaults), fields=dict(_cd.fields), let=dict(_cd.let), requires=list(_cd.requires), result=_cd.result,
    ensures=list(_cd.ensures))
contract(M, 'TemplateModel.get_template', variant='sparse-storage', props=['C05'],
    params={'template_id': 'int', 'channel_ids': 'opt[arr[int]]', 'amplitude_threshold': 'opt[real]', 'unwhiten': 'bool'},
    defaults={'channel_ids': 'None', 'amplitude_threshold': 'None', 'unwhiten': 'True'}, fields=dict(_cs.fields), requires=list(_cs.requires), result=_cs.result,
    ensures=list(_cs.ensures))
