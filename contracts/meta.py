"""Per-property metadata used by the evidence writer and by tools/gen_manifest.py."""

META = {
    'C16': {
        'level': 'proof',
        'text': 'Contracts (pre/post, yield monitors with ghost coverage counter, loop invariants) on the real chunking functions, '
                'VCs generated from /repo source on every run and discharged by z3 for all lengths / chunk sizes / overlaps / file lists. '
                'Reader construction on real files and the mtscomp-backed iterator on real .cbin files are bounded stand-ins.',
        'note': 'Assumed: Python subset semantics (A-PY), mtscomp.Reader field contract (batch_size>=1, n_batches=ceil(n_chunks/batch_size), chunk_bounds strictly increasing), '
                'np.concatenate/slicing in get_excerpts (bounded only).',
        'technique': 'contract-based deductive verification (home-built VC generator over the real source, z3/cvc5) + bounded contract evaluation on the real code as labelled stand-in',
        'design_ref': 'DESIGN.md section 4/C16',
        'assumptions': ['A-LIB mtscomp.Reader fields as stated in DESIGN 2.5'],
    },
}
NOT_APPLICABLE = {}
