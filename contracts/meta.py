"""Per-property metadata used by the evidence writer and by tools/gen_manifest.py."""

META = {
    'C16': {
        'level': 'proof',
        'text': 'Contracts (pre/post, yield monitors with ghost coverage counter, loop invariants) on the real chunking functions, '
                'VCs generated from /repo source on every run and discharged by z3 for all lengths / chunk sizes / overlaps / file lists. '
                'Reader construction on real files and the mtscomp-backed iterator on real .cbin files are bounded stand-ins.',
        'note': 'Assumed: Python subset semantics (A-PY), mtscomp.Reader field contract (batch_size>=1, n_batches=ceil(n_chunks/batch_size), chunk_bounds strictly increasing), '
                'np.concatenate/slicing in get_excerpts (bounded only).',
        'technique': 'contract-based deductive verification (home-built VC generator over the real source, z3/cvc5) + bounded contract evaluation on the real code as labelled stand-in',
        'design_ref': 'DESIGN.md section 4/C16',
        'assumptions': ['A-LIB mtscomp.Reader fields as stated in DESIGN 2.5'],
    },
}


TECH = ('contract-based deductive verification (home-built VC generator over the real /repo source, sidecar contracts, z3/cvc5) '
        '+ bounded contract evaluation on the real code as labelled stand-in')
TECH_B = 'contracts from the property statement evaluated on the real code over an exhaustively enumerated bounded scope (bounded stand-in of the contract-based technique; no obligation proved yet)'


def _default(pid):
    return {
        'level': 'exploration',
        'text': 'Bounded stand-in only so far: the contracts of DESIGN section 4/%s (postconditions from the property statement, oracle independent of phylib) '
                'are evaluated on the real functions over an exhaustively enumerated small scope (bound printed in the evidence). Nothing is claimed as proved.' % pid,
        'note': 'Bounded: holds only for the enumerated scope. Trusted: NumPy/SciPy/mtscomp/csv/json as oracles, the numpy.lib.format import shim (A-SHIM).',
        'technique': TECH_B, 'design_ref': 'DESIGN.md section 4/%s' % pid, 'assumptions': [],
    }


from contracts.claims import CLAIMS  # noqa
for _k, _v in CLAIMS.items():
    META[_k] = dict({'technique': TECH, 'design_ref': 'DESIGN.md section 4/%s and section 9' % _k, 'assumptions': []}, **_v)
META['C16']['technique'] = TECH
for _i in range(1, 21):
    _p = 'C%02d' % _i
    if _p not in META:
        META[_p] = _default(_p)

NOT_APPLICABLE = {}
