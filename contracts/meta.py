"""Per-property metadata used by the evidence writer and by tools/gen_manifest.py."""

META = {
    'C16': {
        'level': 'proof',
        'text': 'PROVED for all lengths / chunk sizes / overlaps / file lists (pre/post, yield monitors with a ghost coverage counter, loop invariants): chunk_bounds (kept parts tile the data exactly once, '
                'inside their chunk, no chunk above the size), _get_chunk_bounds (strictly increasing from 0 to the total, contains every file boundary, gaps at most the chunk length), both iter_chunks '
                '(non-empty intervals tile the recording in order), _excerpt_step and excerpts (in bounds, disjoint, increasing, at most n of at most the size), data_chunk (2- and 4-tuples, with/without overlap), '
                'get_excerpts on its non-iterating branches (the whole data when shorter than requested, none, one). BOUNDED only: get_excerpts with two or more excerpts (concatenation of the yielded chunks), '
                'reader construction on real files and the mtscomp-backed iterator on real .cbin files.',
        'note': 'Assumed: Python subset semantics (A-PY), mtscomp.Reader field contract (batch_size>=1, n_batches=ceil(n_chunks/batch_size), chunk_bounds strictly increasing), '
                'np.concatenate/slicing in get_excerpts (bounded only).',
        'technique': 'contract-based deductive verification (home-built VC generator over the real source, z3/cvc5) + bounded contract evaluation on the real code as labelled stand-in',
        'design_ref': 'DESIGN.md section 4/C16',
        'assumptions': ['A-LIB mtscomp.Reader fields as stated in DESIGN 2.5'],
    },
}


TECH = ('contract-based deductive verification (home-built VC generator over the real /repo source, sidecar contracts, z3/cvc5) '
        '+ bounded contract evaluation on the real code as labelled stand-in')
TECH_B = 'contracts from the property statement evaluated on the real code over an exhaustively enumerated bounded scope (bounded stand-in of the contract-based technique; no obligation proved yet)'


WHY_BOUNDED = {
    'C09': 'No contract within reach of the verifier decides this property: it is an equality of floating-point values computed through matmul, axis reductions, weighted bincount means and NaN placement '
           '(no specification of these in the engine\'s integer/real array theories).',
    'C15': 'The statement equates correlogram entries with COUNTS of spike pairs; the counting loop (bincount of ravelled multi-indices over a shrinking mask) needs cardinality reasoning outside the '
           'engine\'s first-order array theories. Only _diff_shifted is under contract (its obligations are discharged and reported), which does not carry the statement.',
    'C18': 'The property is about C-implemented string codecs (json, base64, csv, str/int conversions, exec-based parameter files): outside the engine\'s theories, no contract within reach.',
}


def _default(pid):
    return {
        'level': 'exploration',
        'text': WHY_BOUNDED.get(pid, '') + ' BOUNDED stand-in only (labelled bounded, never counted as proved): the contracts of DESIGN section 4/%s (postconditions from the property statement, oracle '
                'independent of phylib) are evaluated on the real functions over an exhaustively enumerated small scope (bound printed in the evidence).' % pid,
        'note': 'Bounded: holds only for the enumerated scope. Trusted: NumPy/SciPy/mtscomp/csv/json as oracles, the numpy.lib.format import shim (A-SHIM).',
        'technique': TECH_B, 'design_ref': 'DESIGN.md section 4/%s' % pid, 'assumptions': [],
    }


from contracts.claims import CLAIMS  # noqa
for _k, _v in CLAIMS.items():
    META[_k] = dict({'technique': TECH, 'design_ref': 'DESIGN.md section 4/%s and section 9' % _k, 'assumptions': []}, **_v)
META['C16']['technique'] = TECH
for _i in range(1, 21):
    _p = 'C%02d' % _i
    if _p not in META:
        META[_p] = _default(_p)

NOT_APPLICABLE = {}
