"""C12 — merged channel and template arrays are block-structured by probe (DESIGN 4/C12)."""
from pyvc.contract import contract, declare_class

G_ = 'phylib/io/merge.py'
declare_class('World', None, fields={'channel_maps': 'rag[int]'})      # the probes' channel_map.npy contents, in probe order
declare_class('Merger', G_, fields={'subdirs': 'list[elem]', 'out_dir': 'elem', 'channel_offsets': 'list[int]'})

contract(G_, '_load_multiple_files', variant='channel_map', kind='assumed', params={'fn': 'elem', 'subdirs': 'list[elem]'},
    requires=[('file-name', "fn == 'channel_map.npy'")], result='rag[int]',
    ensures=['same_rows(result, G.channel_maps)', 'len(result) == len(subdirs)'],
    note='np.load of channel_map.npy in every probe directory (fresh arrays: in-place edits do not touch the files), squeezed to 1-D')
contract(G_, 'Merger._save', kind='assumed', params={'self': 'obj[Merger]', 'name': 'elem', 'arr': 'arr[int]'}, note='np.save(self.out_dir / name, arr): effect only (frame contract of C11)')
contract(G_, '_concat', props=['C12', 'C11'], params={'arrs': 'rag[int]', 'axis': 'int', 'dtype': 'opt[elem]'}, defaults={'axis': '0', 'dtype': 'None'},
    requires=[('at-least-one-array', 'len(arrs) >= 1')], result='arr[int]',
    ensures=[('total-length', 'len(result) == rpsum(arrs, len(arrs))'),
             ('blocks-in-order', 'all(result[rpsum(arrs, p) + i] == arrs[p][i] for p in range(len(arrs)) for i in range(len(arrs[p])))'),
             ('every-position-lies-in-exactly-the-block-of-some-array', 'all(any(rpsum(arrs, p) <= f and f < rpsum(arrs, p + 1) and result[f] == arrs[p][f - rpsum(arrs, p)] for p in range(len(arrs))) for f in range(len(result)))')])

_M0 = 'G.channel_maps'
contract(G_, 'Merger.write_channel_data', props=['C12'], params={}, fields={'subdirs': 'list[elem]', 'out_dir': 'elem', 'channel_offsets': 'list[int]'},
    modifies=['self.channel_offsets'],
    requires=[('one-map-per-probe', 'len(%s) == len(self.subdirs) and len(self.subdirs) >= 1' % _M0),
              ('every-probe-has-a-channel', 'all(len(%s[p]) >= 1 for p in range(len(%s)))' % (_M0, _M0))],
    locals={'channel_probes': 'rag[int]', 'channel_maps_l': 'rag[int]'},
    loops={0: {'idx': 'k', 'invariant': [
        ('counts', '0 <= k and k <= len(channel_maps_l) and len(channel_maps_l) == len(%s) and len(self.channel_offsets) == k and len(channel_probes) == k' % _M0),
        ('lengths-kept', 'same_lengths(channel_maps_l, %s)' % _M0),
        ('probes-done-are-shifted-by-their-offset', 'all(channel_maps_l[p][i] == %s[p][i] + self.channel_offsets[p] for p in range(k) for i in range(len(%s[p])))' % (_M0, _M0)),
        ('probes-to-do-are-untouched', 'all(channel_maps_l[p][i] == %s[p][i] for p in range(k, len(%s)) for i in range(len(%s[p])))' % (_M0, _M0, _M0)),
        ('labels-so-far', 'all(len(channel_probes[p]) == len(%s[p]) and all(channel_probes[p][i] == p for i in range(len(%s[p]))) for p in range(k))' % (_M0, _M0)),
        ('label-blocks-start-where-map-blocks-start', 'all(rpsum(channel_probes, p) == rpsum(%s, p) for p in range(k + 1))' % _M0)]}},
    # from the statement: "the channels of probe k form one contiguous block in input order, labelled with probe index k" (shifted by one per-probe constant)
    ensures=[('one-offset-per-probe', 'len(self.channel_offsets) == len(%s)' % _M0),
             ('blocks-in-input-order-shifted-by-the-probe-offset', 'len(channel_maps) == rpsum(%s, len(%s)) and all(channel_maps[rpsum(%s, p) + i] == %s[p][i] + self.channel_offsets[p] for p in range(len(%s)) for i in range(len(%s[p])))' % (_M0, _M0, _M0, _M0, _M0, _M0)),
             ('block-labelled-with-its-probe-index', 'len(channel_probes) == rpsum(%s, len(%s)) and all(channel_probes[rpsum(%s, p) + i] == p for p in range(len(%s)) for i in range(len(%s[p])))' % (_M0, _M0, _M0, _M0, _M0))])
