"""C19 — event dispatch order / filters / silencing, and progress-reporter completion announcements (DESIGN 4/C19)."""
from pyvc.contract import contract, declare_class, declare_ufunc

E = 'phylib/utils/event.py'

# =========================================================================================================================
# ProgressReporter.  Ghost field `armed_off` = G of DESIGN: "a completion has been announced since the value was last set
# below the maximum or the maximum was last raised".  Its evolution is defined by the STATEMENT (ghost_exit clauses); the
# class invariant ties the code's private flag to it.  Emissions go to the ghost world (assumed contract of the module-level
# `emit`, which is the global emitter's bound method).
# =========================================================================================================================
declare_class('World', None, fields={'n_progress': 'int', 'n_complete': 'int', 'last_value': 'int', 'last_max': 'int', 'last_sender': 'elem'})
declare_class('ProgressReporter', E)
PR_FIELDS = {'_value': 'int', '_value_max': 'int', '_has_completed': 'bool', 'G': 'bool'}
INV = [('flag-is-ghost', 'self._has_completed == self.G')]

contract('<lib>', 'emit', variant='progress', kind='assumed', params={'event': 'elem', 'sender': 'obj[ProgressReporter]', 'value': 'int', 'value_max': 'int'}, kwargs='kwargs',
    note="A: the module-level emit is the global EventEmitter's bound emit; its effect on listeners is C19's emitter part",
    requires=[('event-name', "event == 'progress'")],
    modifies=['G.n_progress', 'G.last_value', 'G.last_max'],
    ensures=['G.n_progress == old(G.n_progress) + 1 and G.last_value == value and G.last_max == value_max'])
contract('<lib>', 'emit', variant='complete', kind='assumed', params={'event': 'elem', 'sender': 'obj[ProgressReporter]'}, kwargs='kwargs',
    requires=[('event-name', "event == 'complete'")],
    modifies=['G.n_complete'], ensures=['G.n_complete == old(G.n_complete) + 1'])

_REARMED = '(old(self.G) and not (value < old(self._value_max)))'          # still announced after the "set below the maximum" rule
_ANNOUNCE = '(not %s and value >= old(self._value_max))' % _REARMED           # "a value update reaches the maximum and no completion has been announced since ..."
contract(E, 'ProgressReporter._set_value', props=['C19'], params={'value': 'int'}, kwargs='kwargs', fields=PR_FIELDS,
    cases=[{'kwargs': 'rec[x:int]'}],
    requires=INV, modifies=['self._value', 'self._has_completed', 'G.n_progress', 'G.n_complete', 'G.last_value', 'G.last_max'], 
    ghost_exit={'self.G': '%s or %s' % (_REARMED, _ANNOUNCE)},
    ensures=INV + [
        ('value-stored', 'self._value == value and self._value_max == old(self._value_max)'),
        ('progress-emitted-on-every-update-with-value-and-maximum', 'G.n_progress == old(G.n_progress) + 1 and G.last_value == value and G.last_max == self._value_max'),
        ('completion-announced-exactly-when-reaching-maximum-unannounced', 'G.n_complete == old(G.n_complete) + ite(%s, 1, 0)' % _ANNOUNCE)])

contract(E, 'ProgressReporter.__init__', props=['C19'], params={}, fields=PR_FIELDS, modifies=['self._value', 'self._value_max', 'self._has_completed'],
    ghost_exit={'self.G': 'False'},
    ensures=INV + [('starts-at-zero-unannounced', 'self._value == 0 and self._value_max == 0 and not self.G')])

contract(E, 'ProgressReporter.increment', props=['C19'], params={}, kwargs='kwargs', cases=[{'kwargs': 'rec[x:int]'}], fields=PR_FIELDS,
    let={'value': 'self._value + 1'}, requires=INV, modifies=['self._value', 'self._has_completed', 'G.n_progress', 'G.n_complete', 'G.last_value', 'G.last_max'], 
    ghost_exit={'self.G': '%s or %s' % (_REARMED, _ANNOUNCE)},
    ensures=INV + [('is-a-value-update-to-value+1', 'self._value == old(self._value) + 1 and self._value_max == old(self._value_max) and G.n_progress == old(G.n_progress) + 1'),
                   ('completion-announced-exactly-when-reaching-maximum-unannounced', 'G.n_complete == old(G.n_complete) + ite(%s, 1, 0)' % _ANNOUNCE)])

contract(E, 'ProgressReporter.value', variant='setter', source='ProgressReporter.value@setter', props=['C19'], params={'value': 'int'}, fields=PR_FIELDS,
    requires=INV, modifies=['self._value', 'self._has_completed', 'G.n_progress', 'G.n_complete', 'G.last_value', 'G.last_max'], ghost_exit={'self.G': '%s or %s' % (_REARMED, _ANNOUNCE)},
    ensures=INV + [('is-a-value-update', 'self._value == value and self._value_max == old(self._value_max) and G.n_progress == old(G.n_progress) + 1'),
                   ('completion-announced-exactly-when-reaching-maximum-unannounced', 'G.n_complete == old(G.n_complete) + ite(%s, 1, 0)' % _ANNOUNCE)])

contract(E, 'ProgressReporter.value_max', variant='setter', source='ProgressReporter.value_max@setter', props=['C19'], params={'value_max': 'int'}, fields=PR_FIELDS,
    requires=INV, modifies=['self._value_max', 'self._has_completed'],
    # "... or the maximum was last raised": raising the maximum re-arms; nothing is announced by setting the maximum
    ghost_exit={'self.G': 'old(self.G) and not (value_max > old(self._value_max))'},
    ensures=INV + [('maximum-stored', 'self._value_max == value_max and self._value == old(self._value)'),
                   ('announces-nothing', 'G.n_complete == old(G.n_complete) and G.n_progress == old(G.n_progress)')])

contract(E, 'ProgressReporter.set_complete', props=['C19'], params={}, kwargs='kwargs', cases=[{'kwargs': 'rec[x:int]'}], fields=PR_FIELDS,
    let={'value': 'self._value_max'}, requires=INV, modifies=['self._value', 'self._has_completed', 'G.n_progress', 'G.n_complete', 'G.last_value', 'G.last_max'], 
    ghost_exit={'self.G': 'True'},
    ensures=INV + [('value-set-to-maximum', 'self._value == old(self._value_max)'),
                   ('announces-once-unless-already-announced', 'G.n_complete == old(G.n_complete) + ite(old(self.G), 0, 1)')])

for _v in ('none', 'int'):
    contract(E, 'ProgressReporter.reset', variant=_v, props=['C19'], params={'value_max': _v}, fields=PR_FIELDS, requires=INV, modifies=['self._value', 'self._value_max', 'self._has_completed'],
        # reset() is not a value update (Appendix G); a reset that RAISES the maximum re-arms ("or the maximum was last raised")
        ghost_exit={'self.G': 'old(self.G)' if _v == 'none' else 'old(self.G) and not (value_max > old(self._value_max))'},
        ensures=INV + [('value-zero', 'self._value == 0'), ('announces-nothing', 'G.n_complete == old(G.n_complete) and G.n_progress == old(G.n_progress)')]
        + ([('maximum-kept', 'self._value_max == old(self._value_max)')] if _v == 'none' else [('maximum-stored', 'self._value_max == value_max')]))

contract(E, 'ProgressReporter.is_complete', props=['C19'], params={}, fields=PR_FIELDS, result='bool',
    ensures=[('definition', 'result == (self._value >= self._value_max)')])

contract(E, 'ProgressReporter.value_max', is_property=True, props=['C19'], params={}, fields=PR_FIELDS, result='int', ensures=[('getter', 'result == self._value_max')])
contract(E, 'ProgressReporter.value', is_property=True, props=['C19'], params={}, fields=PR_FIELDS, result='int', ensures=[('getter', 'result == self._value')])

# =========================================================================================================================
# EventEmitter.  Abstract view V = self._callbacks: records (event, sender_filter, func, kwargs{last}).
# =========================================================================================================================
declare_class('EventEmitter', E)
CB = 'list[tuple[elem,elem,elem,rec[last:bool]]]'
EM_FIELDS = {'_callbacks': CB, 'is_silent': 'bool'}

contract(E, 'EventEmitter.reset', props=['C19'], params={}, fields=EM_FIELDS, modifies=['self._callbacks'],
    ensures=[('view-is-empty', 'len(self._callbacks) == 0')])
contract(E, 'EventEmitter.__init__', props=['C19'], params={}, fields=EM_FIELDS, modifies=['self._callbacks', 'self.is_silent'],
    ensures=[('view-is-empty', 'len(self._callbacks) == 0'), ('not-silent', 'not self.is_silent')])
contract(E, 'EventEmitter.set_silent', props=['C19'], params={'silent': 'bool'}, fields=EM_FIELDS, modifies=['self.is_silent'],
    ensures=[('flag-set', 'self.is_silent == silent'), ('view-unchanged', 'self._callbacks == old(list(self._callbacks))')])

contract(E, 'EventEmitter.silent', props=['C19'], params={}, fields=EM_FIELDS, modifies=['self.is_silent'],
    on_yield={'vars': ['_'], 'requires': [('silenced-inside-the-context', 'self.is_silent')], 'updates': {}},   # "calls nothing while silenced"
    ensures=[('restored-afterwards', 'self.is_silent == old(self.is_silent)')])

declare_ufunc('on_name', ['elem'], 'elem')
declare_ufunc('has_on_name', ['elem'], 'bool')
contract(E, 'EventEmitter._get_on_name', kind='assumed', params={'self': 'obj[EventEmitter]', 'func': 'elem'}, result='elem',
    raises=[('ValueError', 'not has_on_name(func)', 'iff')], ensures=['result == on_name(func)'],
    note='A: regular expression ^on_(.+)$ on func.__name__')

contract(E, 'EventEmitter.connect', props=['C19'],
    params={'func': 'elem', 'event': 'opt[elem]', 'sender': 'opt[elem]'}, kwargs='kwargs', cases=[{'kwargs': 'rec[last:bool]'}],
    fields=EM_FIELDS, modifies=['self._callbacks'],
    requires=[('a-callback-is-given', 'func is not None'), ('event-names-are-not-empty', 'implies(event is not None, bool(event))')],
    raises=[('ValueError', 'event is None and not has_on_name(func)', 'iff')], result='elem',
    # registration order is append order: V' = V + [(event or on-name, sender, func, kwargs)]
    ensures=[('returns-the-callback', 'result == func'),
             ('appended-at-the-end', 'len(self._callbacks) == len(old(self._callbacks)) + 1 and self._callbacks[len(self._callbacks) - 1] == (ite(event is None, on_name(func), event), sender, func, kwargs)'),
             ('earlier-registrations-untouched', 'all(self._callbacks[k] == old(self._callbacks)[k] for k in range(len(old(self._callbacks))))'),
             ('silencing-unchanged', 'self.is_silent == old(self.is_silent)')])

# =========================================================================================================================
# EventEmitter.emit / unconnect.  Ghost trace of the callback calls made by one emit:
#   calls[a] = the callable, reg[a] = its registration index in self._callbacks, rets[a] = what it returned.
# Assumption A-CB: a callback does not re-enter the emitter (connect/unconnect/reset/emit during dispatch are outside this contract).
# =========================================================================================================================
_CBS = 'self._callbacks'
_MATCH = lambda r: '(%s[%s][0] == event and (%s[%s][1] is None or %s[%s][1] == sender))' % (_CBS, r, _CBS, r, _CBS, r)
_LAST = lambda r: '%s[%s][3].last' % (_CBS, r)
_BEFORE = lambda x, y: '((not %s and %s) or (%s == %s and %s < %s))' % (_LAST(x), _LAST(y), _LAST(x), _LAST(y), x, y)   # dispatch order on registration indices
_MONITOR = {'requires': [('passes-sender-and-arguments-through-unchanged', 'len(call_args) == 1 and call_args[0] == sender and len(call_star) == 1 and call_star[0] == args')],
            'updates': {'calls': 'calls + [callee]', 'reg': 'reg + [origin(callbacks, t, self._callbacks)]', 'cp': 'cp + [t]', 'rets': 'rets + [call_ret]'}}
_TRACE_OK = [('trace-lengths', 'len(calls) == len(reg) and len(rets) == len(reg)'),
             ('only-registered-callbacks-matching-event-and-sender', 'all(0 <= reg[a] and reg[a] < len(%s) and %s and calls[a] == %s[reg[a]][2] for a in range(len(reg)))' % (_CBS, _MATCH('reg[a]'), _CBS))]
_LOOP = {0: {'idx': 't', 'seq': 'L', 'invariant': [
    ('trace-so-far', '0 <= t and t <= len(L) and len(calls) == len(reg) and len(rets) == len(reg) and len(cp) == len(reg) and len(res) == len(reg)'),
    ('calls-are-listed-positions-in-order', 'all(0 <= cp[a] and cp[a] < t and reg[a] == origin(callbacks, cp[a], self._callbacks) and calls[a] == L[cp[a]][2] and res[a] == rets[a] and L[cp[a]][0] == event and (L[cp[a]][1] is None or L[cp[a]][1] == sender) for a in range(len(cp))) and all(cp[a] < cp[b] for a in range(len(cp)) for b in range(a + 1, len(cp)))'),
    ('every-matching-position-so-far-was-called', 'all(implies(L[p][0] == event and (L[p][1] is None or L[p][1] == sender), any(cp[a] == p for a in range(len(cp)))) for p in range(t))')]}}
_CUTS = [('callbacks +=', 'listed-are-registered', 'all(0 <= origin(callbacks, p, self._callbacks) and origin(callbacks, p, self._callbacks) < len(%s) and callbacks[p] == %s[origin(callbacks, p, self._callbacks)] for p in range(len(callbacks)))' % (_CBS, _CBS)),
         ('callbacks +=', 'every-registered-callback-is-listed', 'all(any(origin(callbacks, p, self._callbacks) == r for p in range(len(callbacks))) for r in range(len(%s)))' % _CBS),
         ('callbacks +=', 'list-order-is-dispatch-order', 'all(%s for p in range(len(callbacks)) for q in range(p + 1, len(callbacks)))' % _BEFORE('origin(callbacks, p, self._callbacks)', 'origin(callbacks, q, self._callbacks)'))]

contract(E, 'EventEmitter.emit', variant='all', props=['C19'], params={'event': 'elem', 'sender': 'elem', 'args': 'elem', 'kwargs': 'rec[x:int]'}, fields=EM_FIELDS,
    ghost={'calls': "empty('elem')", 'reg': "empty('int')", 'cp': "empty('int')", 'rets': "empty('elem')"}, on_call=_MONITOR, loops=_LOOP, cuts=_CUTS, locals={'res': 'list[elem]'},
    ensures=_TRACE_OK + [
        ('calls-nothing-while-silenced', 'implies(self.is_silent, len(reg) == 0 and result is None)'),
        ('every-matching-registered-callback-is-called', 'implies(not self.is_silent, all(implies(%s, any(reg[a] == r for a in range(len(reg)))) for r in range(len(%s))))' % (_MATCH('r'), _CBS)),
        ('in-registration-order-with-last-after-all-others', 'all(%s for a in range(len(reg)) for b in range(a + 1, len(reg)))' % _BEFORE('reg[a]', 'reg[b]')),
        ('returns-the-results-in-call-order', 'implies(not self.is_silent, len(result) == len(rets) and all(result[a] == rets[a] for a in range(len(rets))))'),
        ('registrations-and-silencing-unchanged', 'self._callbacks == old(list(self._callbacks)) and self.is_silent == old(self.is_silent)')])

_LOOP_SINGLE = {0: {'idx': 't', 'seq': 'L', 'invariant': _LOOP[0]['invariant'] + [('nothing-called-yet', 'len(reg) == 0')]}}
contract(E, 'EventEmitter.emit', variant='single', props=['C19'], params={'event': 'elem', 'sender': 'elem', 'args': 'elem', 'kwargs': 'rec[single:bool]'}, fields=EM_FIELDS,
    requires=[('a-single-result-is-requested', 'kwargs.single')],
    ghost={'calls': "empty('elem')", 'reg': "empty('int')", 'cp': "empty('int')", 'rets': "empty('elem')"}, on_call=_MONITOR, loops=_LOOP_SINGLE, cuts=_CUTS, locals={'res': 'list[elem]'},
    ensures=_TRACE_OK + [
        ('calls-nothing-while-silenced', 'implies(self.is_silent, len(reg) == 0 and result is None)'),
        ('at-most-one-call', 'len(reg) <= 1'),
        # "only the first result, after a single call, when a single result is requested"
        ('the-first-matching-callback-in-dispatch-order-is-the-one-called', 'implies(not self.is_silent and not is_list(result), len(reg) == 1 and result == rets[0] and all(implies(%s, r == reg[0] or %s) for r in range(len(%s))))' % (_MATCH('r'), _BEFORE('reg[0]', 'r'), _CBS)),
        ('no-result-only-when-nothing-matches', 'implies(not self.is_silent and is_list(result), len(result) == 0 and len(reg) == 0 and all(not %s for r in range(len(%s))))' % (_MATCH('r'), _CBS)),
        ('registrations-and-silencing-unchanged', 'self._callbacks == old(list(self._callbacks)) and self.is_silent == old(self.is_silent)')])

# unconnect(*items): the view loses exactly the registrations whose callback, sender filter or bound object is one of the items; order kept
_OLD = 'old(self._callbacks)'
_KEEP = lambda r: ('(not any(items[q] == %s[%s][2] for q in range(len(items))) and not any(items[q] == %s[%s][1] for q in range(len(items))) and '
                   "not any(items[q] == getattr(%s[%s][2], '__self__', None) for q in range(len(items))))" % (_OLD, r, _OLD, r, _OLD, r))
contract(E, 'EventEmitter.unconnect', props=['C19'], params={'items': 'list[elem]'}, fields=EM_FIELDS, modifies=['self._callbacks'],
    ensures=[('kept-registrations-are-old-ones-not-named-by-an-item', 'all(0 <= origin(self._callbacks, j) and origin(self._callbacks, j) < len(%s) and self._callbacks[j] == %s[origin(self._callbacks, j)] and %s for j in range(len(self._callbacks)))' % (_OLD, _OLD, _KEEP('origin(self._callbacks, j)'))),
             ('registration-order-kept', 'all(origin(self._callbacks, i) < origin(self._callbacks, j) for i in range(len(self._callbacks)) for j in range(i + 1, len(self._callbacks)))'),
             ('nothing-else-is-removed', 'all(implies(%s, any(origin(self._callbacks, j) == r for j in range(len(self._callbacks)))) for r in range(len(%s)))' % (_KEEP('r'), _OLD)),
             ('silencing-unchanged', 'self.is_silent == old(self.is_silent)')])
