"""Catalogue of deliberate edits used to test the verifier itself (thorough tier; DESIGN 2.9).
expect='fail': property-breaking, some obligation must fail.  expect='pass': property-preserving negative control."""
A = 'phylib/io/array.py'
T = 'phylib/io/traces.py'
CATALOGUE = [
    dict(id='cb-keep_end-full-overlap', prop='C16', file=A, old="        keep_start = keep_end\n        keep_end = s_end - overlap // 2\n        if s_start < s_end:",
         new="        keep_start = keep_end\n        keep_end = s_end - overlap\n        if s_start < s_end:"),
    dict(id='cb-final-keep_start+1', prop='C16', file=A, old="    s_end = n_samples\n    keep_start = keep_end\n", new="    s_end = n_samples\n    keep_start = keep_end + 1\n"),
    dict(id='cb-loop-guard-<=', prop='C16', file=A, old="while s_end - overlap + chunk_size < n_samples:", new="while s_end - overlap + chunk_size <= n_samples:", expect='pass'),
    dict(id='cb-first-keep_end-rounding', prop='C16', file=A, old="    keep_end = s_end - overlap // 2\n    yield s_start, s_end, keep_start, keep_end\n",
         new="    keep_end = s_end - (overlap + 1) // 2\n    yield s_start, s_end, keep_start, keep_end\n", expect='pass'),
    dict(id='cb-s_start-no-overlap', prop='C16', file=A, old="        s_start = s_end - overlap\n        s_end = s_start + chunk_size\n", new="        s_start = s_end\n        s_end = s_start + chunk_size\n"),
    dict(id='cb-chunk-too-large', prop='C16', file=A, old="        s_end = s_start + chunk_size\n", new="        s_end = s_start + chunk_size + 1\n"),
    dict(id='ex-step-min', prop='C16', file=A, old="    step = max((n_samples - excerpt_size) // (n_excerpts - 1),\n               excerpt_size)", new="    step = min((n_samples - excerpt_size) // (n_excerpts - 1),\n               excerpt_size)"),
    dict(id='ex-end-unclipped', prop='C16', file=A, old="        end = min(start + excerpt_size, n_samples)", new="        end = start + excerpt_size"),
    dict(id='ex-break->', prop='C16', file=A, old="        if start >= n_samples:\n            break", new="        if start > n_samples:\n            break"),
    dict(id='ex-range+1', prop='C16', file=A, old="    for i in range(n_excerpts):\n        start = i * step", new="    for i in range(n_excerpts + 1):\n        start = i * step"),
    dict(id='mt-no-lookbehind', prop='C16', file=T, old="            first_chunk = max(first_chunk - 1, 0)\n", new="            first_chunk = max(first_chunk, 0)\n"),
    dict(id='mt-last-not-held-back', prop='C16', file=T, old="            last_chunk = max(first_chunk, last_chunk - 1)\n", new="            last_chunk = max(first_chunk, last_chunk)\n"),
    dict(id='mt-final-yield-short', prop='C16', file=T, old="        yield reader.chunk_bounds[last_chunk], reader.chunk_bounds[last_chunk + 1]", new="        yield reader.chunk_bounds[last_chunk], reader.chunk_bounds[last_chunk]"),
    dict(id='mt-batch-min-dropped', prop='C16', file=T, old="            last_chunk = min(reader.batch_size * (batch + 1), reader.n_chunks)  # last excluded", new="            last_chunk = reader.batch_size * (batch + 1)  # last excluded"),
    dict(id='base-iter-skip-first', prop='C16', file=T, old="        for i0, i1 in zip(self.chunk_bounds[:-1], self.chunk_bounds[1:]):", new="        for i0, i1 in zip(self.chunk_bounds[1:-1], self.chunk_bounds[2:]):"),
    dict(id='base-iter-same-slices', prop='C16', file=T, old="        for i0, i1 in zip(self.chunk_bounds[:-1], self.chunk_bounds[1:]):", new="        for i0, i1 in zip(self.chunk_bounds[:-1], self.chunk_bounds[:-1]):"),
    dict(id='base-iter-equivalent', prop='C16', file=T, old="        for i0, i1 in zip(self.chunk_bounds[:-1], self.chunk_bounds[1:]):", new="        for i0, i1 in zip(self.chunk_bounds, self.chunk_bounds[1:]):", expect='pass'),
    dict(id='gcb-skip-empty-ch', prop='C16', file=T, old="        b.extend(ch)\n", new="        if not ch:\n            continue\n        b.extend(ch)\n"),
    dict(id='gcb-no-dedup', prop='C16', file=T, old="        if b and ch and ch[0] == b[-1]:\n            ch = ch[1:]\n", new=""),
    dict(id='gcb-range-excl-end', prop='C16', file=T, old="        ch = list(range(n, n + arr_size + 1, chunk_size))", new="        ch = list(range(n, n + arr_size, chunk_size))"),  # first file of size 0: b[-1] on an empty list
    dict(id='gcb-range-from-n+1', prop='C16', file=T, old="        ch = list(range(n, n + arr_size + 1, chunk_size))", new="        ch = list(range(n + 1, n + arr_size + 1, chunk_size))"),
    dict(id='gcb-append-always', prop='C16', file=T, old="        if b[-1] != n + arr_size:\n            b.append(n + arr_size)", new="        b.append(n + arr_size)"),
    dict(id='gcb-n-not-advanced', prop='C16', file=T, old="        n += arr_size\n    return b", new="        n = arr_size\n    return b"),
]
