"""Frame (effect) contracts, DESIGN 2.6: which files each public entry point may write.  `path` is a regular expression over the text of the
written path expression (after resolving local aliases and write-wrapper arguments), `guard` one over the enclosing conditions.
Names of LOCAL variables are written as \\w+ (a renamed local must not raise an alarm); attribute and parameter names are spelled out."""
T = 'phylib/io/traces.py'
M = 'phylib/io/model.py'
READERS = {'klass': [(T, 'FlatEphysReader.__init__'), (T, 'MtscompEphysReader.__init__'), (T, 'ArrayEphysReader.__init__'), (T, 'NpyEphysReader.__init__')]}
COMMON = dict(dynamic=READERS, allow=[('read_python', 'exec')], extra_pure={'mtscomp.Reader', 'reader.open'})
ASSUME = ['A-PURE: the pure list of pyvc/effects.py (NumPy/SciPy computations, logging, pathlib queries, dict/list methods, mtscomp read-only open)',
          'A-FS: distinct path expressions name distinct files; os.link/os.symlink are forbidden primitives; the output directory is not inside an input directory',
          'A-EXEC: read_python exec()s params.py, assumed to consist of plain assignments (data)',
          'A-DISPATCH: get_ephys_reader constructs one of Flat/Mtscomp/Array/Npy readers (the four classes _get_ephys_constructor can return)']

LOAD_FRAME = [
    {'what': 'spike-cluster copy, only when the spike-cluster file is missing', 'path': r"self\.dir_path / 'spike_clusters\.npy'", 'guard': r'\w+ is None', 'function': r'TemplateModel\._load_spike_clusters'},
    {'what': 'inverse whitening matrix, only when its file is missing (IOError from _load_wmi)', 'path': r"self\.dir_path / 'whitening_mat_inv\.npy'", 'guard': r'except IOError', 'function': r'TemplateModel\._compute_wmi'},
]

FRAMES = {
    'C04': [dict(entry=(M, 'load_model'), frame=LOAD_FRAME, label='load_model creates nothing except the spike-cluster copy and the inverse whitening matrix', **COMMON)],
}

A = 'phylib/io/array.py'
G = 'phylib/io/merge.py'
L = 'phylib/io/alf.py'
NPYW = {'dtype_to_descr', '_check_version', '_write_array_header'}      # numpy.lib.format helpers writing into the file NpyWriter has just opened
SUBSET = dict(COMMON, dynamic=dict(READERS, ss=[(A, 'SpikeSelector.__call__')]), extra_pure=COMMON['extra_pure'] | NPYW | {'self.get_spikes_per_cluster'})

_dirs = lambda base: [{'what': 'creating the parent directory of an allowed file', 'path': r'\(' + base + r'\)\.parent'}]
SUBSET_FRAME = [{'what': 'spike-waveform subset file %s in the dataset directory' % n, 'path': r"self\.dir_path / '_phy_spikes_subset\.%s\.npy'" % n, 'function': r'TemplateModel\.save_spikes_subset_waveforms'}
                for n in ('spikes', 'channels', 'waveforms')]
LOAD_OF_OUTPUT = [dict(f, what=f['what'] + ' — of the model loaded from the OUTPUT directory (its dir_path is the output directory)') for f in LOAD_FRAME]

FRAMES['C10'] = [
    dict(entry=(M, 'TemplateModel.save_spike_clusters'), label='save_spike_clusters writes exactly the spike-cluster file that loading reads',
         frame=[{'what': 'the existing spike-cluster file (KS or ALF name)', 'path': r"self\._find_path\('spike_clusters\.npy', 'spikes\.clusters\.npy', multiple_ok=False\)"}], **COMMON),
    dict(entry=(M, 'TemplateModel.save_metadata'), label='save_metadata writes only cluster_<name>.tsv',
         frame=[{'what': 'cluster_<name>.tsv in the dataset directory', 'path': r"self\.dir_path / \('cluster_%s\.tsv' % name\)"}] + _dirs(r"self\.dir_path / \('cluster_%s\.tsv' % name\)"), **COMMON),
    dict(entry=(M, 'TemplateModel.save_spikes_subset_waveforms'), label='the three subset files are the only files written', frame=SUBSET_FRAME, **SUBSET),
    dict(entry=(M, 'TemplateModel.close'), label='close writes nothing', frame=[], **COMMON),
    dict(entry=(M, 'load_model'), frame=LOAD_FRAME, label='reloading creates nothing except the spike-cluster copy and the inverse whitening matrix', **COMMON),
]
FRAMES['C11'] = [
    dict(entry=(G, 'Merger.merge'), label='merging writes only below the output directory; the input directories are only read',
         frame=[{'what': 'a file below the output directory', 'path': r'self\.out_dir / .+'}] + _dirs(r'self\.out_dir / .+') + LOAD_OF_OUTPUT, **COMMON),
]
FRAMES['C13'] = [
    dict(entry=(L, 'EphysAlfCreator.convert'), label='conversion writes below the output directory, adds only the subset files to the source, deletes only the temporary whitened file',
         receivers={'self.model': (M, 'TemplateModel')},
         must_precede={'test': r'self\.out_path\.resolve\(\) == self\.dir_path\.resolve\(\)', 'raises': 'IOError'},
         frame=[{'what': 'a file below the output directory', 'path': r'self\.out_path( / .+|\.joinpath\(.+\))?'},
                {'what': 'an existing file of the output directory (dtype compression)', 'path': r"next\(self\.out_path\.glob\(.+\)\)"},
                {'what': 'renaming files of the output directory with the label', 'path': r'for-each\(self\.out_path\.glob\(\w+\)\)', 'function': r'EphysAlfCreator\.rename_with_label'},
                {'what': "deleting the sorter's temporary whitened-data file", 'path': r'self\.dir_path\.joinpath\(\w+\)', 'function': r'EphysAlfCreator\.rm_files'}]
               + _dirs(r'self\.out_path / \w+') + SUBSET_FRAME + LOAD_OF_OUTPUT,
         **SUBSET),
]
ASSUME += ['A-ALF: FILE_DELETES lists only temp_wh.dat (checked by the bounded stand-in); rename_with_label patterns only match files of the output directory',
           'A-CALLBACK: SpikeSelector.get_spikes_per_cluster is the dictionary lookup lambda passed by save_spikes_subset_waveforms (pure)',
           'A-DISPATCH2: `ss` in save_spikes_subset_waveforms is the SpikeSelector constructed two lines above']
