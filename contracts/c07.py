"""C07 — spike-cluster index utilities partition the spikes (DESIGN 4/C07).  Set-theoretic definitions from the statement;
NumPy functions are the assumed 1-D array theory of pyvc/npth.py."""
from pyvc.contract import contract
import contracts.lib  # noqa

A = 'phylib/io/array.py'

contract(A, '_unique', props=['C07', 'C15'], params={'x': 'arr[int]'}, result='arr[int]',
    # "the unique-id helper agrees with its set-theoretic definition": the distinct non-negative values, increasing
    ensures=[('strictly-increasing', 'all(result[i] < result[j] for i in range(len(result)) for j in range(i + 1, len(result)))'),
             ('only-values-present-and-non-negative', 'all(result[j] >= 0 and any(x[k] == result[j] for k in range(len(x))) for j in range(len(result)))'),
             ('every-non-negative-value-present', 'all(implies(x[k] >= 0, any(result[j] == x[k] for j in range(len(result)))) for k in range(len(x)))')])

contract(A, '_spikes_in_clusters', props=['C07'], params={'spike_clusters': 'arr[int]', 'clusters': 'arr[int]'}, result='arr[int]',
    # "selecting the spikes of any set of clusters": exactly the spike indices whose cluster is requested, increasing
    ensures=[('strictly-increasing', 'all(result[i] < result[j] for i in range(len(result)) for j in range(i + 1, len(result)))'),
             ('only-spikes-of-requested-clusters', 'all(0 <= result[j] and result[j] < len(spike_clusters) and any(clusters[c] == spike_clusters[result[j]] for c in range(len(clusters))) for j in range(len(result)))'),
             ('every-spike-of-a-requested-cluster', 'all(implies(any(clusters[c] == spike_clusters[s] for c in range(len(clusters))), any(result[j] == s for j in range(len(result)))) for s in range(len(spike_clusters)))')])

contract(A, '_index_of', props=['C07', 'C06', 'C15'], params={'arr': 'arr[int]', 'lookup': 'arr[int]'}, result='arr[int]',
    requires=[('lookup-distinct', 'all(lookup[i] != lookup[j] for i in range(len(lookup)) for j in range(i + 1, len(lookup)))'),
              ('lookup-entries-at-least-minus-1', 'all(lookup[i] >= -1 for i in range(len(lookup)))'),
              ('every-element-is-in-the-lookup', 'all(any(lookup[i] == arr[k] for i in range(len(lookup))) for k in range(len(arr)))')],
    # "the index-in-lookup helper agrees with its set-theoretic definition": result[k] is THE position of arr[k] in the lookup
    ensures=[('same-length', 'len(result) == len(arr)'),
             ('position-in-lookup', 'all(0 <= result[k] and result[k] < len(lookup) and lookup[result[k]] == arr[k] for k in range(len(arr)))')])
