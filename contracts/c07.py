"""C07 — spike-cluster index utilities partition the spikes (DESIGN 4/C07).  Set-theoretic definitions from the statement;
NumPy functions are the assumed 1-D array theory of pyvc/npth.py."""
from pyvc.contract import contract
import contracts.lib  # noqa

A = 'phylib/io/array.py'

contract(A, '_unique', hints={'replay': ('unique', {'x': ('array', 'x'), 'dtype': ('const', 'int64')})}, props=['C07', 'C15'], params={'x': 'arr[int]'}, result='arr[int]',
    # "the unique-id helper agrees with its set-theoretic definition": the distinct non-negative values, increasing
    ensures=[('strictly-increasing', 'all(result[i] < result[j] for i in range(len(result)) for j in range(i + 1, len(result)))'),
             ('only-values-present-and-non-negative', 'all(result[j] >= 0 and any(x[k] == result[j] for k in range(len(x))) for j in range(len(result)))'),
             ('every-non-negative-value-present', 'all(implies(x[k] >= 0, any(result[j] == x[k] for j in range(len(result)))) for k in range(len(x)))')])

contract(A, '_spikes_in_clusters', hints={'replay': ('spikes_in_clusters', {'sc': ('array', 'spike_clusters'), 'dtype': ('const', 'int64'), 'clusters': ('array', 'clusters')})}, props=['C07'], params={'spike_clusters': 'arr[int]', 'clusters': 'arr[int]'}, result='arr[int]',
    # "selecting the spikes of any set of clusters": exactly the spike indices whose cluster is requested, increasing
    ensures=[('strictly-increasing', 'all(result[i] < result[j] for i in range(len(result)) for j in range(i + 1, len(result)))'),
             ('only-spikes-of-requested-clusters', 'all(0 <= result[j] and result[j] < len(spike_clusters) and any(clusters[c] == spike_clusters[result[j]] for c in range(len(clusters))) for j in range(len(result)))'),
             ('every-spike-of-a-requested-cluster', 'all(implies(any(clusters[c] == spike_clusters[s] for c in range(len(clusters))), any(result[j] == s for j in range(len(result)))) for s in range(len(spike_clusters)))')])

contract(A, '_index_of', hints={'replay': ('index_of', {'arr': ('array', 'arr'), 'dtype': ('const', 'int64'), 'lookup': ('array', 'lookup')})}, props=['C07', 'C06', 'C15'], params={'arr': 'arr[int]', 'lookup': 'arr[int]'}, result='arr[int]',
    requires=[('lookup-distinct', 'all(lookup[i] != lookup[j] for i in range(len(lookup)) for j in range(i + 1, len(lookup)))'),
              ('lookup-entries-at-least-minus-1', 'all(lookup[i] >= -1 for i in range(len(lookup)))'),
              ('every-element-is-in-the-lookup', 'all(any(lookup[i] == arr[k] for i in range(len(lookup))) for k in range(len(arr)))')],
    # "the index-in-lookup helper agrees with its set-theoretic definition": result[k] is THE position of arr[k] in the lookup
    ensures=[('same-length', 'len(result) == len(arr)'),
             ('position-in-lookup', 'all(0 <= result[k] and result[k] < len(lookup) and lookup[result[k]] == arr[k] for k in range(len(arr)))')])

# ---- _spikes_per_cluster: "for each cluster id present and no other, exactly the increasing array of spike indices (or supplied spike ids)
#      carrying that id, so the groups partition all spikes" -------------------------------------------------------------------------------
_SID = lambda s: 'ite(spike_ids is None, %s, spike_ids[%s])' % (s, s)
_K, _V = 'dkeys(result)', 'dvals(result)'
_RUNS = ['groups-are-the-runs', 'ids-are-constant-between-boundaries', 'boundaries-start-at-zero-and-increase', 'sorted-position-p-holds-spike-rel[p]']
contract(A, '_spikes_per_cluster', hints={'replay': ('spikes_per_cluster', {'sc': ('array', 'spike_clusters'), 'dtype': ('const', 'int64')})}, props=['C07'], params={'spike_clusters': 'arr[int]', 'spike_ids': 'opt[arr[int]]'}, defaults={'spike_ids': 'None'}, result='assoc[int]',
    requires=[('one-id-per-spike', 'implies(spike_ids is not None, len(spike_ids) == len(spike_clusters))'),
              ('supplied-spike-ids-increasing', 'implies(spike_ids is not None, all(spike_ids[a] < spike_ids[b] for a in range(len(spike_ids)) for b in range(a + 1, len(spike_ids))))')],
    # S = cluster ids in sorted order; idx = the positions where a new id starts; run i = positions idx[i] .. next boundary - 1
    cuts=[('spike_clusters = spike_clusters[rel_spikes]', 'let:S', 'spike_clusters'),
          ('spike_clusters = spike_clusters[rel_spikes]', 'sorted', 'all(S[a] <= S[b] for a in range(len(S)) for b in range(a + 1, len(S)))'),
          ('spike_clusters = spike_clusters[rel_spikes]', 'sorted-position-p-holds-spike-rel[p]',
           'len(S) == len(old(spike_clusters)) and len(abs_spikes) == len(S) and all(0 <= rel_spikes[p] and rel_spikes[p] < len(S) and S[p] == old(spike_clusters)[rel_spikes[p]] and abs_spikes[p] == ite(old(spike_ids) is None, rel_spikes[p], old(spike_ids)[rel_spikes[p]]) for p in range(len(S)))'),
          ('spike_clusters = spike_clusters[rel_spikes]', 'every-spike-has-a-sorted-position', 'all(any(rel_spikes[p] == s for p in range(len(S))) for s in range(len(old(spike_clusters))))'),
          ('spike_clusters = spike_clusters[rel_spikes]', 'equal-ids-keep-the-spike-order', 'all(implies(S[p] == S[q], abs_spikes[p] < abs_spikes[q]) for p in range(len(S)) for q in range(p + 1, len(S)))'),
          ('diff[1:] = np.diff', 'diff-is-the-step-of-the-sorted-ids', 'len(diff) == len(S) and diff[0] == 1 and all(diff[p] == S[p] - S[p - 1] for p in range(1, len(S)))'),
          ('idx = np.nonzero', 'lemma:L4', '(idx, S)'),
          ('idx = np.nonzero', 'boundaries-are-exactly-the-positive-steps', 'all(iff(any(idx[i] == p for i in range(len(idx))), diff[p] > 0) for p in range(len(S)))'),
          ('idx = np.nonzero', 'boundaries-start-at-zero-and-increase', 'len(idx) >= 1 and idx[0] == 0 and all(idx[i] < idx[j] for i in range(len(idx)) for j in range(i + 1, len(idx))) and all(0 <= idx[i] and idx[i] < len(S) for i in range(len(idx)))'),
          ('idx = np.nonzero', 'every-position-lies-in-a-run', 'all(any(idx[k] <= p and (k + 1 >= len(idx) or p < idx[k + 1]) for k in range(len(idx))) for p in range(len(S)))'),
          ('idx = np.nonzero', 'a-boundary-starts-a-larger-id', 'all(implies(idx[i] >= 1, S[idx[i] - 1] < S[idx[i]]) for i in range(len(idx)))'),
          ('idx = np.nonzero', 'other-positions-continue-the-run', 'all(implies(not any(idx[i] == p for i in range(len(idx))), S[p - 1] == S[p]) for p in range(1, len(S)))'),
          ('idx = np.nonzero', 'lemma:L3', 'S'),
          ('idx = np.nonzero', 'ids-are-constant-between-boundaries', 'all(all(implies(idx[i] <= p and (i + 1 >= len(idx) or p < idx[i + 1]), S[p] == S[idx[i]]) for p in range(len(S))) for i in range(len(idx)))'),
          ('spikes_in_clusters[clusters[-1]] =', 'groups-are-the-runs',
           'len(dkeys(spikes_in_clusters)) == len(idx) and len(dvals(spikes_in_clusters)) == len(idx) and all(dkeys(spikes_in_clusters)[k] == S[idx[k]] and '
           'len(dvals(spikes_in_clusters)[k]) == ite(k + 1 < len(idx), idx[k + 1], len(S)) - idx[k] and '
           'all(dvals(spikes_in_clusters)[k][j] == abs_spikes[idx[k] + j] for j in range(len(dvals(spikes_in_clusters)[k]))) for k in range(len(idx)))'),
          # the same fact read by sorted position instead of by offset inside the group
          ('spikes_in_clusters[clusters[-1]] =', 'every-position-of-a-run-is-in-its-group',
           'all(all(implies(idx[k] <= p and (k + 1 >= len(idx) or p < idx[k + 1]), p - idx[k] < len(dvals(spikes_in_clusters)[k]) and dvals(spikes_in_clusters)[k][p - idx[k]] == abs_spikes[p]) for p in range(len(S))) for k in range(len(idx)))'),
          ('clusters = spike_clusters[idx]', 'cluster-keys-increase', 'len(clusters) == len(idx) and all(clusters[i] < clusters[j] for i in range(len(clusters)) for j in range(i + 1, len(clusters)))')],
    using={'every-position-lies-in-a-run': ['lemma:L4', 'boundaries-start-at-zero-and-increase'],
           'other-positions-continue-the-run': ['sorted', 'diff-is-the-step-of-the-sorted-ids', 'boundaries-are-exactly-the-positive-steps'],
           'a-boundary-starts-a-larger-id': ['diff-is-the-step-of-the-sorted-ids', 'boundaries-are-exactly-the-positive-steps'],
           'ids-are-constant-between-boundaries': ['lemma:L3', 'other-positions-continue-the-run', 'boundaries-start-at-zero-and-increase'],
           'cluster-keys-increase': ['sorted', 'a-boundary-starts-a-larger-id', 'boundaries-start-at-zero-and-increase', 'theory:index'],
           'every-position-of-a-run-is-in-its-group': ['groups-are-the-runs', 'boundaries-start-at-zero-and-increase'],
           'groups-are-the-runs': ['theory:dictcomp', 'theory:slice', 'theory:index', 'boundaries-start-at-zero-and-increase'],
           'sorted-position-p-holds-spike-rel[p]': ['theory:index', 'theory:np.argsort', 'theory:np.arange'],
           'every-spike-has-a-sorted-position': ['theory:np.argsort'],
           'equal-ids-keep-the-spike-order': ['theory:index', 'theory:np.argsort', 'theory:np.arange', 'supplied-spike-ids-increasing', 'one-id-per-spike'],
           'one-group-per-key-keys-increasing': ['groups-are-the-runs', 'cluster-keys-increase', 'theory:index'],
           'no-group-for-an-id-that-is-not-present': _RUNS,
           'one-group-for-each-id-present': _RUNS + ['every-position-lies-in-a-run', 'every-spike-has-a-sorted-position'],
           'groups-hold-only-spikes-carrying-that-id': _RUNS,
           'every-spike-is-in-the-group-of-its-id': _RUNS + ['every-position-lies-in-a-run', 'every-spike-has-a-sorted-position', 'every-position-of-a-run-is-in-its-group'],
           'each-group-is-increasing': _RUNS + ['equal-ids-keep-the-spike-order']},
    ensures=[('one-group-per-key-keys-increasing', 'len(%s) == len(%s) and all(%s[a] < %s[b] for a in range(len(%s)) for b in range(a + 1, len(%s)))' % (_K, _V, _K, _K, _K, _K)),
             ('no-group-for-an-id-that-is-not-present', 'all(any(spike_clusters[s] == %s[k] for s in range(len(spike_clusters))) for k in range(len(%s)))' % (_K, _K)),
             ('one-group-for-each-id-present', 'all(any(%s[k] == spike_clusters[s] for k in range(len(%s))) for s in range(len(spike_clusters)))' % (_K, _K)),
             ('groups-hold-only-spikes-carrying-that-id', 'all(all(any(spike_clusters[s] == %s[k] and %s[k][j] == %s for s in range(len(spike_clusters))) for j in range(len(%s[k]))) for k in range(len(%s)))' % (_K, _V, _SID('s'), _V, _K)),
             ('every-spike-is-in-the-group-of-its-id', 'all(any(%s[k] == spike_clusters[s] and any(%s[k][j] == %s for j in range(len(%s[k]))) for k in range(len(%s))) for s in range(len(spike_clusters)))' % (_K, _V, _SID('s'), _V, _K)),
             ('each-group-is-increasing', 'all(all(%s[k][i] < %s[k][j] for i in range(len(%s[k])) for j in range(i + 1, len(%s[k]))) for k in range(len(%s)))' % (_V, _V, _V, _V, _K))])

# ---- _flatten_per_cluster: "selecting ... equals the sorted union of their groups" ---------------------------------------------------------
contract(A, '_flatten_per_cluster', props=['C07', 'C17'], params={'per_cluster': 'assoc[int]'}, result='arr[int]',
    requires=[('at-least-one-group', 'len(dkeys(per_cluster)) >= 1')],      # np.concatenate of an empty list raises (callers never pass an empty dict)
    ensures=[('sorted-without-repetition', 'all(result[a] < result[b] for a in range(len(result)) for b in range(a + 1, len(result)))'),
             ('only-members-of-a-group', 'all(any(any(dvals(per_cluster)[k][j] == result[i] for j in range(len(dvals(per_cluster)[k]))) for k in range(len(dvals(per_cluster)))) for i in range(len(result)))'),
             ('every-member-of-every-group', 'all(all(any(result[i] == dvals(per_cluster)[k][j] for i in range(len(result))) for j in range(len(dvals(per_cluster)[k]))) for k in range(len(dvals(per_cluster))))')])

# ---- the model's per-cluster and per-template spike queries "agree with them" --------------------------------------------------------------
M7 = 'phylib/io/model.py'
from pyvc.contract import declare_class
declare_class('TemplateModel', M7)
for _q, _f, _p in (('get_cluster_spikes', 'spike_clusters', 'cluster_id'), ('get_template_spikes', 'spike_templates', 'template_id')):
    contract(M7, 'TemplateModel.' + _q, props=['C07'], params={_p: 'int'}, fields={'spike_clusters': 'arr[int]', 'spike_templates': 'arr[int]'}, result='arr[int]',
        ensures=[('increasing-spike-indices', 'all(0 <= result[a] and result[a] < len(self.%s) for a in range(len(result))) and all(result[a] < result[b] for a in range(len(result)) for b in range(a + 1, len(result)))' % _f),
                 ('only-spikes-carrying-the-id', 'all(self.%s[result[a]] == %s for a in range(len(result)))' % (_f, _p)),
                 ('every-spike-carrying-the-id', 'all(implies(self.%s[s] == %s, any(result[a] == s for a in range(len(result)))) for s in range(len(self.%s)))' % (_f, _p, _f))])
