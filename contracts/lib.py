"""Assumed contracts of library functions (the trusted base, DESIGN 2.5).  Each is conformance-tested against the
installed library by concrete/conformance.py; none is ever counted as proved."""
from pyvc.contract import contract

contract('<lib>', 'np.searchsorted', kind='assumed',
    params={'a': 'list[int]', 'v': 'list[int]', 'side': 'elem'},
    note="side='right' on a non-decreasing int array a: insertion points",
    requires=[('a-sorted', 'all(a[i] <= a[j] for i in range(len(a)) for j in range(i + 1, len(a)))'),
              ('side-is-right', "side == 'right'")],
    result='arr[int]',
    ensures=['len(result) == len(v)',
             'all(0 <= result[k] and result[k] <= len(a) for k in range(len(v)))',
             'all(a[i] <= v[k] for k in range(len(v)) for i in range(result[k]))',
             'all(a[i] > v[k] for k in range(len(v)) for i in range(result[k], len(a)))',
             # monotone in the searched value (consequence of the two clauses above; stated because it needs a non-syntactic instance)
             'all(implies(v[k1] <= v[k2], result[k1] <= result[k2]) for k1 in range(len(v)) for k2 in range(len(v)))'])
