"""C02 — lazy reader expressions commute with eager evaluation; derivation is side-effect free (DESIGN 4/C02).

Rows of the loaded block are opaque values (sort Elem); every deferred operator acts row-wise
(`op_row(op, arg, row)`: elementwise dunders and column selection never mix rows — NumPy facts E1-E3, assumed and
conformance-tested on the concrete side).  `ops_fold(ops, n, row)` is the left fold of the first n deferred operators."""
from pyvc.contract import contract, declare_class

T = 'phylib/io/traces.py'
OPS = 'list[tuple[elem,elem]]'
FIELDS = {'_ops': OPS, 'part_bounds': 'list[int]', 'chunk_bounds': 'list[int]', 'rows': 'list[elem]', 'n_channels': 'int', 'sample_rate': 'real', 'ndim': 'int', 'other': 'elem'}
declare_class('BaseEphysReader', T, fields=FIELDS)

contract(T, 'BaseEphysReader._append_op', props=['C02', 'C01'],
    params={'op': 'elem', 'arg': 'elem'}, defaults={'arg': 'None'}, fields=FIELDS,
    result='obj[BaseEphysReader]', result_from={'copy_of': 'self', 'fresh': ['_ops']},
    ensures=[('result-is-a-new-object', 'result is not self and is_fresh(result)'),
             ('clone-has-its-own-ops-list', 'result._ops is not self._ops and is_fresh(result._ops)'),     # no aliasing of the deferred-op list
             ('clone-ops-are-parent-ops-plus-this-one', 'len(result._ops) == len(old(self._ops)) + 1 and result._ops[len(result._ops) - 1] == (op, arg) '
              'and all(result._ops[k] == old(self._ops)[k] for k in range(len(old(self._ops))))'),
             ('parent-ops-unchanged', 'self._ops == old(list(self._ops))'),                                      # "never changes what the parent returns"
             ('everything-else-shared', 'same_fields_except(result, self, "_ops")'),
             # fold form used by callers (follows from the two clauses above and the definition of ops_fold)
             ('clone-applies-parent-ops-then-this-one', 'all(ops_fold(result._ops, len(result._ops), r) == op_row(op, arg, ops_fold(old(self._ops), len(old(self._ops)), r)) for r in elems())')])

contract(T, '_apply_op', props=['C02'],
    params={'op': 'elem', 'arg': 'opt[elem]', 'arr': 'arr[elem]'},
    result='arr[elem]',
    ensures=[('same-number-of-rows', 'len(result) == len(arr)'),
             # 'cols' -> arr[:, arg]; otherwise the dunder named by op, applied to arg (or to nothing when arg is None)
             ('row-wise-operator', 'all(result[k] == op_row(op, arg, arr[k]) for k in range(len(arr)))')])

contract(T, 'BaseEphysReader._apply_ops', props=['C02', 'C01'],
    params={'arr': 'arr[elem]'}, fields=FIELDS, result='arr[elem]',
    loops={0: {'idx': 'k', 'invariant': [
        ('prefix-folded', '0 <= k and k <= len(self._ops) and len(arr) == len(old(arr)) and all(arr[r] == ops_fold(self._ops, k, old(arr)[r]) for r in range(len(arr)))')]}},
    ensures=[('same-number-of-rows', 'len(result) == len(arr)'),
             ('left-fold-of-deferred-ops-in-order', 'all(result[r] == ops_fold(self._ops, len(self._ops), arr[r]) for r in range(len(arr)))'),
             ('reader-unchanged', 'self._ops == old(list(self._ops))')])

# operator table taken from the statement ("unary plus/minus, the binary operators + - * / // ** against scalars on either side")
# and the Python data model: __X__ defers the operator named X.
DUNDERS = {'__add__': 'add', '__radd__': 'radd', '__sub__': 'sub', '__rsub__': 'rsub', '__mul__': 'mul', '__rmul__': 'rmul',
           '__truediv__': 'truediv', '__rtruediv__': 'rtruediv', '__floordiv__': 'floordiv', '__rfloordiv__': 'rfloordiv',
           '__pow__': 'pow', '__rpow__': 'rpow', '__pos__': 'pos', '__neg__': 'neg'}
for _d, _op in DUNDERS.items():
    _unary = _op in ('pos', 'neg')
    contract(T, 'BaseEphysReader.' + _d, props=['C02'],
        params={} if _unary else {'arg': 'elem'}, fields=FIELDS, result='obj[BaseEphysReader]', result_from={'copy_of': 'self', 'fresh': ['_ops']},
        ensures=[('is-again-a-reader-and-new', 'is_fresh(result) and is_fresh(result._ops)'),
                 ('defers-exactly-this-operator', "all(ops_fold(result._ops, len(result._ops), r) == op_row('%s', %s, ops_fold(old(self._ops), len(old(self._ops)), r)) for r in elems())" % (_op, 'None' if _unary else 'arg')),
                 ('parent-unchanged', 'self._ops == old(list(self._ops))'),
                 ('everything-else-shared', 'same_fields_except(result, self, "_ops")')])
