"""C17 — spike selection honours its cluster, chunk, subset and count constraints (DESIGN 4/C17)."""
from pyvc.contract import contract, declare_class
import contracts.lib  # noqa

A = 'phylib/io/array.py'
declare_class('SpikeSelector', A)
SEL_FIELDS = {'get_spikes_per_cluster': 'elem', 'spike_times': 'elem', 'chunks_kept': 'list[int]'}

contract('<lib>', 'np.array', kind='assumed', params={'x': 'list[int]'}, result='arr[int]',
    ensures=['len(result) == len(x)', 'all(result[k] == x[k] for k in range(len(x)))'], note='np.array of a list of ints: same values')

contract(A, 'SpikeSelector.__init__', props=['C17'],
    params={'get_spikes_per_cluster': 'elem', 'spike_times': 'elem', 'chunk_bounds': 'list[int]', 'n_chunks_kept': 'int'},
    fields=SEL_FIELDS, modifies=['self.get_spikes_per_cluster', 'self.spike_times', 'self.chunks_kept'],
    let={'n': 'len(chunk_bounds) - 1'},
    requires=[('a-grid-of-at-least-one-chunk', 'len(chunk_bounds) >= 2'), ('keep-at-least-one-chunk', 'n_chunks_kept >= 1')],
    loops={0: {'idx': 'j', 'invariant': [
        ('position', 'i == smul(j, i__step) and 0 <= j and i__step >= 1 and smul(n_chunks_kept, i__step) >= n'),
        ('two-bounds-per-kept-chunk', 'len(self.chunks_kept) == 2 * j'),
        ('kept-so-far-are-strided-grid-intervals', 'all(self.chunks_kept[2 * q] == chunk_bounds[smul(q, i__step)] and self.chunks_kept[2 * q + 1] == chunk_bounds[smul(q, i__step) + 1] for q in range(j))'),
        ('at-most-the-requested-number-so-far', 'implies(j >= 1, smul(j - 1, i__step) < n)')],
        'defs_at_entry': ['smul_def(n_chunks_kept, i__step)']}},
    # from the statement: "the kept chunks are whole intervals of the supplied chunk grid taken at a regular stride starting with the first,
    # never more than the requested number" — for SOME stride s >= 1 (the formula of the stride is not part of the statement)
    ensures=[('kept-chunks-are-whole-grid-intervals-at-a-regular-stride-from-the-first-never-more-than-requested',
              'any(len(self.chunks_kept) % 2 == 0 and 2 <= len(self.chunks_kept) and len(self.chunks_kept) <= 2 * n_chunks_kept '
              'and all(smul(q, s) + 1 < len(chunk_bounds) and self.chunks_kept[2 * q] == chunk_bounds[smul(q, s)] and self.chunks_kept[2 * q + 1] == chunk_bounds[smul(q, s) + 1] '
              'for q in range(len(self.chunks_kept) // 2)) and smul(len(self.chunks_kept) // 2, s) >= n for s in range(1, n + 2))',
              {'witness': {'s': 'i__step'}})])

contract(A, '_times_in_chunks', props=['C17'],
    params={'times': 'arr[int]', 'chunks_kept': 'arr[int]'},
    requires=[('pairs', 'len(chunks_kept) % 2 == 0'),
              # kept chunks are intervals of an increasing grid: a_0 < b_0 <= a_1 < b_1 <= ... (inner bounds may be duplicated when the stride is 1)
              ('kept-bounds-non-decreasing', 'all(chunks_kept[i] <= chunks_kept[j] for i in range(len(chunks_kept)) for j in range(i + 1, len(chunks_kept)))'),
              ('kept-chunks-non-empty', 'all(chunks_kept[2 * j] < chunks_kept[2 * j + 1] for j in range(len(chunks_kept) // 2))')],
    result='arr[bool]',
    # from the statement: a spike belongs to "the kept time chunks": selected exactly when its time lies in some kept half-open interval
    ensures=[('one-flag-per-time', 'len(result) == len(times)'),
             ('selected-iff-in-some-kept-chunk', 'all(iff(result[k], any(chunks_kept[2 * j] <= times[k] and times[k] < chunks_kept[2 * j + 1] for j in range(len(chunks_kept) // 2))) for k in range(len(times)))')])
