"""C17 — spike selection honours its cluster, chunk, subset and count constraints (DESIGN 4/C17)."""
from pyvc.contract import contract, declare_class
import contracts.lib  # noqa

A = 'phylib/io/array.py'
declare_class('SpikeSelector', A)
SEL_FIELDS = {'get_spikes_per_cluster': 'elem', 'spike_times': 'elem', 'chunks_kept': 'list[int]'}

contract(A, 'SpikeSelector.__init__', props=['C17'], hints={'replay': ('chunks_kept', {'cb': ('array', 'chunk_bounds'), 'kept': 'n_chunks_kept'})},
    params={'get_spikes_per_cluster': 'elem', 'spike_times': 'elem', 'chunk_bounds': 'list[int]', 'n_chunks_kept': 'int'},
    fields=SEL_FIELDS, modifies=['self.get_spikes_per_cluster', 'self.spike_times', 'self.chunks_kept'],
    let={'n': 'len(chunk_bounds) - 1'},
    requires=[('a-grid-of-at-least-one-chunk', 'len(chunk_bounds) >= 2'), ('keep-at-least-one-chunk', 'n_chunks_kept >= 1')],
    loops={0: {'idx': 'j', 'invariant': [
        ('position', 'i == smul(j, i__step) and 0 <= j and i__step >= 1 and smul(n_chunks_kept, i__step) >= n'),
        ('two-bounds-per-kept-chunk', 'len(self.chunks_kept) == 2 * j'),
        ('kept-so-far-are-strided-grid-intervals', 'all(self.chunks_kept[2 * q] == chunk_bounds[smul(q, i__step)] and self.chunks_kept[2 * q + 1] == chunk_bounds[smul(q, i__step) + 1] for q in range(j))'),
        ('at-most-the-requested-number-so-far', 'implies(j >= 1, smul(j - 1, i__step) < n)')],
        'defs_at_entry': ['smul_def(n_chunks_kept, i__step)']}},
    # from the statement: "the kept chunks are whole intervals of the supplied chunk grid taken at a regular stride starting with the first,
    # never more than the requested number" — for SOME stride s >= 1 (the formula of the stride is not part of the statement)
    ensures=[('kept-chunks-are-whole-grid-intervals-at-a-regular-stride-from-the-first-never-more-than-requested',
              'any(len(self.chunks_kept) % 2 == 0 and 2 <= len(self.chunks_kept) and len(self.chunks_kept) <= 2 * n_chunks_kept '
              'and all(smul(q, s) + 1 < len(chunk_bounds) and self.chunks_kept[2 * q] == chunk_bounds[smul(q, s)] and self.chunks_kept[2 * q + 1] == chunk_bounds[smul(q, s) + 1] '
              'for q in range(len(self.chunks_kept) // 2)) and smul(len(self.chunks_kept) // 2, s) >= n for s in range(1, n + 2))',
              {'witness': {'s': 'i__step'}})])

contract(A, '_times_in_chunks', props=['C17'], hints={'replay': ('times_in_chunks', {'times': ('array', 'times'), 'kept_bounds': ('array', 'chunks_kept'), 'times_dtype': ('const', 'int64')})},
    params={'times': 'arr[int]', 'chunks_kept': 'arr[int]'},
    requires=[('pairs', 'len(chunks_kept) % 2 == 0'),
              # kept chunks are intervals of an increasing grid: a_0 < b_0 <= a_1 < b_1 <= ... (inner bounds may be duplicated when the stride is 1)
              ('kept-bounds-non-decreasing', 'all(chunks_kept[i] <= chunks_kept[j] for i in range(len(chunks_kept)) for j in range(i + 1, len(chunks_kept)))'),
              ('kept-chunks-non-empty', 'all(chunks_kept[2 * j] < chunks_kept[2 * j + 1] for j in range(len(chunks_kept) // 2))')],
    result='arr[bool]',
    # from the statement: a spike belongs to "the kept time chunks": selected exactly when its time lies in some kept half-open interval
    ensures=[('one-flag-per-time', 'len(result) == len(times)'),
             ('selected-iff-in-some-kept-chunk', 'all(iff(result[k], any(chunks_kept[2 * j] <= times[k] and times[k] < chunks_kept[2 * j + 1] for j in range(len(chunks_kept) // 2))) for k in range(len(times)))')])

# ---- SpikeSelector.__call__: "returns a strictly increasing array of spike ids that all belong to the requested clusters, to the kept time
#      chunks when chunk restriction is requested, and to the optional spike subset" -----------------------------------------------------------
from pyvc.contract import declare_ufunc
from . import c07  # noqa: the proved contract of _flatten_per_cluster
declare_ufunc('spike_of', ['int', 'int'], 'bool')     # spike_of(cluster, spike): what the callback get_spikes_per_cluster(cluster) lists
contract('<lib>', 'np.random.choice', kind='assumed', params={'a': 'arr[int]', 'size': 'int'}, kwargs='kwargs', cases=[{'kwargs': 'rec[replace:bool]'}], result='arr[int]',
    requires=['not kwargs.replace', '0 <= size and size <= len(a)'],
    ensures=['len(result) == size', 'all(any(a[j] == result[i] for j in range(len(a))) for i in range(len(result)))'],
    note='a sample without replacement: size elements of a (which ones is not specified)')
SEL2 = {'get_spikes_per_cluster': 'elem', 'spike_times': 'arr[int]', 'chunks_kept': 'arr[int]'}
_IN_CHUNK = lambda t: 'any(self.chunks_kept[2 * cj] <= %s and %s < self.chunks_kept[2 * cj + 1] for cj in range(len(self.chunks_kept) // 2))' % (t, t)
_ELIG = lambda c, x: ('(spike_of(%s, %s) and implies(subset_chunks, %s) and implies(subset_spikes is not None, any(subset_spikes[q] == %s for q in range(len(subset_spikes)))))'
                      % (c, x, _IN_CHUNK('self.spike_times[%s]' % x), x))
contract(A, 'SpikeSelector.__call__', props=['C17'], fields=SEL2,
    params={'n_spk_clu': 'opt[int]', 'cluster_ids': 'arr[int]', 'subset_chunks': 'bool', 'subset_spikes': 'opt[arr[int]]'}, defaults={'subset_chunks': 'False', 'subset_spikes': 'None'},
    result='arr[int]', locals={'selection': 'assoc[int]'},
    requires=[('requested-clusters-distinct', 'all(cluster_ids[a] != cluster_ids[b] for a in range(len(cluster_ids)) for b in range(a + 1, len(cluster_ids)))'),
              ('pairs', 'len(self.chunks_kept) % 2 == 0'),
              ('kept-bounds-non-decreasing', 'all(self.chunks_kept[i] <= self.chunks_kept[j] for i in range(len(self.chunks_kept)) for j in range(i + 1, len(self.chunks_kept)))'),
              ('kept-chunks-non-empty', 'all(self.chunks_kept[2 * j] < self.chunks_kept[2 * j + 1] for j in range(len(self.chunks_kept) // 2))')],
    on_call={'returns': 'arr[int]', 'bind': {},
             'assume': [('the-callback-lists-spike-indices-of-the-cluster-it-is-asked-for',
                         'all(0 <= call_ret[j] and call_ret[j] < len(self.spike_times) and spike_of(call_args[0], call_ret[j]) for j in range(len(call_ret)))')],
             'updates': {}},
    loops={0: {'idx': 'c', 'seq': 'CL', 'invariant': [
        ('one-group-per-cluster-done', '0 <= c and c <= len(CL) and len(dkeys(selection)) == c and len(dvals(selection)) == c and all(dkeys(selection)[i] == CL[i] for i in range(c))'),
        ('groups-hold-eligible-spikes-of-their-cluster', 'all(all(%s for j in range(len(dvals(selection)[i]))) for i in range(c))' % _ELIG('CL[i]', 'dvals(selection)[i][j]'))]}},
    cuts=[('t = self.spike_times[spike_ids]', 'callback-spikes', 'all(0 <= spike_ids[j] and spike_ids[j] < len(self.spike_times) and spike_of(cluster, spike_ids[j]) for j in range(len(spike_ids)))'),
          ('spike_ids = spike_ids[_times_in_chunks', 'kept-spikes-lie-in-kept-chunks', 'all(0 <= spike_ids[j] and spike_ids[j] < len(self.spike_times) and spike_of(cluster, spike_ids[j]) and %s for j in range(len(spike_ids)))' % _IN_CHUNK('self.spike_times[spike_ids[j]]')),
          ('spike_ids = np.intersect1d', 'kept-spikes-are-in-the-subset', 'all(0 <= spike_ids[j] and spike_ids[j] < len(self.spike_times) and %s for j in range(len(spike_ids)))' % _ELIG('cluster', 'spike_ids[j]')),
          ('spike_ids = np.random.choice', 'sampled-spikes-are-eligible', 'all(0 <= spike_ids[j] and spike_ids[j] < len(self.spike_times) and %s for j in range(len(spike_ids)))' % _ELIG('cluster', 'spike_ids[j]')),
          ('before:selection[cluster] = spike_ids', 'group-to-store-is-eligible', 'all(%s for j in range(len(spike_ids)))' % _ELIG('cluster', 'spike_ids[j]'))],
    ensures=[('strictly-increasing', 'all(result[a] < result[b] for a in range(len(result)) for b in range(a + 1, len(result)))'),
             ('every-selected-spike-is-eligible-for-a-requested-cluster', 'all(any(%s for i in range(len(cluster_ids))) for k in range(len(result)))' % _ELIG('cluster_ids[i]', 'result[k]'))])
