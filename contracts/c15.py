"""C15 — correlograms (DESIGN 4/C15): helper contracts.  The global counting equality is bounded only (needs induction over a
cardinality across the shrinking-mask loop)."""
from pyvc.contract import contract

G = 'phylib/stats/ccg.py'

contract(G, '_diff_shifted', props=['C15'], params={'arr': 'arr[int]', 'steps': 'int'}, defaults={'steps': '1'},
    requires=[('shift-within-the-array', '1 <= steps and steps <= len(arr)')], result='arr[int]',
    # delay between spike i and spike i+steps
    ensures=[('length', 'len(result) == len(arr) - steps'),
             ('shifted-difference', 'all(result[i] == arr[i + steps] - arr[i] for i in range(len(arr) - steps))')])
