"""C01 — reader indexing equals NumPy indexing of the concatenation (DESIGN 4/C01)."""
from pyvc.contract import contract, declare_class
import contracts.lib  # noqa

T = 'phylib/io/traces.py'

contract(T, '_find_chunks', props=['C01', 'C03'],
    params={'bounds': 'list[int]', 'arr': 'list[int]'},
    requires=[('bounds-increasing', 'increasing(bounds)')],
    result='arr[int]',
    ensures=[('same-length', 'len(result) == len(arr)'),
             ('range', 'all(-1 <= result[k] and result[k] <= len(bounds) - 1 for k in range(len(arr)))'),
             ('bounds-up-to-chunk-not-above-x', 'all(bounds[i] <= arr[k] for k in range(len(arr)) for i in range(result[k] + 1))'),
             ('bounds-after-chunk-above-x', 'all(bounds[i] > arr[k] for k in range(len(arr)) for i in range(result[k] + 1, len(bounds)))'),
             ('monotone', 'all(implies(arr[k1] <= arr[k2], result[k1] <= result[k2]) for k1 in range(len(arr)) for k2 in range(len(arr)))')])

WF = [('at-least-one-part', 'len(bounds) >= 2'), ('starts-at-0', 'bounds[0] == 0'),
      ('parts-nonempty', 'increasing(bounds)')]          # every part has >= 1 row

SLICE_REQ = WF + [
    ('unit-step', 'item.step is None or item.step == 1'),
    ('start-in-range', 'item.start is None or (-n <= item.start and item.start <= n)'),
    ('stop-in-range', 'item.stop is None or -n <= item.stop'),      # stops beyond the end are clipped like NumPy does (used by the waveform extractor)
    ('selects-at-least-one-row', 'S < E')]

# from the statement: "returns exactly the rows NumPy would return on the concatenated array":
# the pieces are consecutive non-empty in-range slices of consecutive parts that tile [S, E)
SLICE_ENS = [
    ('at-least-one-piece', 'len(result) >= 1'),
    ('consecutive-parts', 'all(result[j][0] == result[0][0] + j for j in range(len(result)))'),
    ('pieces-inside-their-parts', 'all(piece_ok(bounds, result[j], result[j][0]) and result[j][0] + 1 < len(bounds) and result[j][0] >= 0 for j in range(len(result)))'),
    ('first-piece-starts-at-S', 'bounds[result[0][0]] + result[0][1].start == S'),
    ('last-piece-stops-at-E', 'bounds[result[len(result) - 1][0]] + result[len(result) - 1][1].stop == E'),
    ('interior-pieces-run-to-part-end', 'all(result[j][1].stop == bounds[result[j][0] + 1] - bounds[result[j][0]] for j in range(len(result) - 1))'),
    ('later-pieces-start-at-part-start', 'all(result[j][1].start == 0 for j in range(1, len(result)))'),
]

contract(T, '_get_subitems', variant='slice', props=['C01'],
    params={'bounds': 'list[int]', 'item': 'slice[opt[int],opt[int],opt[int]]'},
    let={'n': 'bounds[len(bounds) - 1]', 'S': 'norm_start(item.start, bounds[len(bounds) - 1])', 'E': 'norm_stop(item.stop, bounds[len(bounds) - 1])'},
    requires=SLICE_REQ, result='list[tuple[int,slice]]', ensures=SLICE_ENS,
    locals={'out': 'list[tuple[int,slice]]'},
    loops={0: {'invariant': [
        ('count', 'len(out) == chunk - first_chunk and first_chunk <= chunk and chunk <= last_chunk + 1'),
        ('pieces-ok', 'all(piece_ok(bounds, out[j], first_chunk + j) for j in range(len(out)))'),
        ('first-starts-at-S', 'implies(len(out) >= 1, bounds[first_chunk] + out[0][1].start == start)'),
        ('interior-full', 'all(implies(first_chunk + j < last_chunk, out[j][1].stop == bounds[first_chunk + j + 1] - bounds[first_chunk + j]) for j in range(len(out)))'),
        ('last-stops-at-E', 'implies(chunk == last_chunk + 1 and len(out) >= 1, bounds[last_chunk] + out[len(out) - 1][1].stop == stop)'),
        ('later-start-0', 'all(out[j][1].start == 0 for j in range(1, len(out)))'),
    ]}},
    hints={'replay': None})

contract(T, '_get_subitems', variant='int', props=['C01'],
    params={'bounds': 'list[int]', 'item': 'int'},
    let={'n': 'bounds[len(bounds) - 1]'},
    requires=WF + [('index-in-range', '-n <= item and item < n')],
    result='list[tuple[int,int]]',
    # from the statement: "an integer selects one row": row (item mod n) of the concatenation, located in its part
    ensures=[('one-piece', 'len(result) == 1'),
             ('part-in-range', '0 <= result[0][0] and result[0][0] + 1 < len(bounds)'),
             ('row-inside-part', '0 <= result[0][1] and result[0][1] < bounds[result[0][0] + 1] - bounds[result[0][0]]'),
             ('locates-the-row', 'bounds[result[0][0]] + result[0][1] == ite(item < 0, item + n, item)')])

contract(T, '_get_subitems', variant='tuple-slice', props=['C01'],
    params={'bounds': 'list[int]', 'item': 'tuple[slice[opt[int],opt[int],opt[int]],elem]'},
    let={'n': 'bounds[len(bounds) - 1]', 'S': 'norm_start(item[0].start, bounds[len(bounds) - 1])', 'E': 'norm_stop(item[0].stop, bounds[len(bounds) - 1])'},
    requires=[(l, e.replace('item.', 'item[0].')) for l, e in SLICE_REQ],
    result='list[tuple[int,slice]]', ensures=SLICE_ENS)

# ---------------------------------------------------------------------------------------------------------
# BaseEphysReader.__getitem__: abstract view — `self.rows` is the concatenation A of the parts (rows are opaque values);
# part c holds rows A[b[c] : b[c+1]] with b = self.part_bounds (class invariant WF(R)).
# ---------------------------------------------------------------------------------------------------------
import contracts.c02 as _c02  # noqa  (contracts of _append_op / _apply_ops)
from contracts.c02 import FIELDS

RWF = [('at-least-one-part', 'len(self.part_bounds) >= 2'), ('starts-at-0', 'self.part_bounds[0] == 0'),
       ('parts-nonempty', 'increasing(self.part_bounds)'),
       ('rows-are-the-concatenation', 'len(self.rows) == self.part_bounds[len(self.part_bounds) - 1]')]

# assumed contract of the backends' _get_part (memmap / np.load / in-memory / mtscomp decode): A, validated by the bounded stand-in
contract('<lib>', 'BaseEphysReader._get_part', variant='slice', kind='assumed',
    params={'self': 'obj[BaseEphysReader]', 'part_idx': 'int', 'subitem': 'slice[int,int,int]'}, fields=FIELDS,
    requires=[('part-exists', '0 <= part_idx and part_idx + 1 < len(self.part_bounds)'),
              ('slice-inside-part', 'subitem.step == 1 and 0 <= subitem.start and subitem.start < subitem.stop and subitem.stop <= self.part_bounds[part_idx + 1] - self.part_bounds[part_idx]')],
    result='arr[elem]',
    ensures=['len(result) == subitem.stop - subitem.start',
             'all(result[k] == self.rows[self.part_bounds[part_idx] + subitem.start + k] for k in range(subitem.stop - subitem.start))'])
contract('<lib>', 'BaseEphysReader._get_part', variant='int', kind='assumed',
    params={'self': 'obj[BaseEphysReader]', 'part_idx': 'int', 'subitem': 'int'}, fields=FIELDS,
    requires=[('part-exists', '0 <= part_idx and part_idx + 1 < len(self.part_bounds)'),
              ('row-inside-part', '0 <= subitem and subitem < self.part_bounds[part_idx + 1] - self.part_bounds[part_idx]')],
    result='arr[elem]',     # one row; np.vstack makes it a 1 x n_channels block
    ensures=['len(result) == 1', 'result[0] == self.rows[self.part_bounds[part_idx] + subitem]'])

_N = 'self.part_bounds[len(self.part_bounds) - 1]'
GI_LET = {'n': _N}

contract(T, 'BaseEphysReader.__getitem__', variant='int', props=['C01'],
    params={'item': 'int'}, fields=FIELDS, let=GI_LET,
    requires=RWF + [('index-in-range', '-n <= item and item < n')],
    result='arr[elem]', locals={'to_concat': 'blocks[elem]'},
    loops={0: {'idx': 'k', 'seq': 'pieces', 'invariant': [
        ('one-block-per-piece', 'nblocks(to_concat) == k and 0 <= k and k <= 1 and len(flat(to_concat)) == k'),
        ('rows-so-far', 'implies(k == 1, flat(to_concat)[0] == self.rows[ite(item < 0, item + n, item)])')]}},
    # "an integer selects one row, returned two-dimensional"
    ensures=[('one-row', 'len(result) == 1'),
             ('is-that-row-of-the-concatenation-after-deferred-ops', 'result[0] == ops_fold(self._ops, len(self._ops), self.rows[ite(item < 0, item + n, item)])')])

SL = {'S': 'norm_start(item.start, %s)' % _N, 'E': 'norm_stop(item.stop, %s)' % _N}
COV = 'ite(k == 0, S, self.part_bounds[pieces[k - 1][0]] + pieces[k - 1][1].stop)'
contract(T, 'BaseEphysReader.__getitem__', variant='slice', props=['C01'],
    params={'item': 'slice[opt[int],opt[int],opt[int]]'}, fields=FIELDS, let=dict(GI_LET, **SL),
    requires=RWF + [(l, e.replace('bounds', 'self.part_bounds')) for l, e in SLICE_REQ[3:]],
    result='arr[elem]', locals={'to_concat': 'blocks[elem]'},
    loops={0: {'idx': 'k', 'seq': 'pieces', 'invariant': [
        ('one-block-per-piece', 'nblocks(to_concat) == k and 0 <= k and k <= len(pieces)'),
        ('covered-prefix', 'len(flat(to_concat)) == %s - S' % COV),
        ('rows-so-far', 'all(flat(to_concat)[r] == self.rows[S + r] for r in range(len(flat(to_concat))))')]}},
    # "returns exactly the rows NumPy would return on the concatenated array"
    ensures=[('row-count', 'len(result) == E - S'),
             ('rows-of-the-concatenation-after-deferred-ops', 'all(result[r] == ops_fold(self._ops, len(self._ops), self.rows[S + r]) for r in range(E - S))')])

import itertools as _it
_FOLD_SELF = 'ops_fold(self._ops, len(self._ops), %s)'

contract(T, 'BaseEphysReader.__getitem__', variant='tuple-full-slice', props=['C01', 'C02'],
    params={'item': 'tuple[slice[none,none,none],elem]'}, fields=FIELDS, requires=RWF,
    result='obj[BaseEphysReader]',
    # "whole-recording channel selection is again a reader": reader[:, cols] returns a clone deferring the column selection, reads nothing
    ensures=[('is-again-a-reader-and-new', 'is_fresh(result) and is_fresh(result._ops)'),
             ('defers-the-column-selection', "all(ops_fold(result._ops, len(result._ops), r) == op_row('cols', item[1], %s) for r in elems())" % (_FOLD_SELF % 'r')),
             ('parent-unchanged', 'self._ops == old(list(self._ops))'),
             ('same-recording', 'result.part_bounds is self.part_bounds and result.rows is self.rows')])

_SL_CASES = [{'item': 'tuple[slice[%s,%s,%s],elem]' % c} for c in _it.product(('int', 'none'), repeat=3) if c != ('none', 'none', 'none')]
contract(T, 'BaseEphysReader.__getitem__', variant='tuple-slice', props=['C01'],
    params={'item': 'tuple[slice[opt[int],opt[int],opt[int]],elem]'}, cases=_SL_CASES, fields=FIELDS,
    let=dict(GI_LET, S='norm_start(item[0].start, %s)' % _N, E='norm_stop(item[0].stop, %s)' % _N),
    requires=RWF + [(l, e.replace('bounds', 'self.part_bounds').replace('item.', 'item[0].')) for l, e in SLICE_REQ[3:]],
    result='arr[elem]', locals={'to_concat': 'blocks[elem]'},
    loops={0: {'idx': 'k', 'seq': 'pieces', 'invariant': [
        ('one-block-per-piece', 'nblocks(to_concat) == k and 0 <= k and k <= len(pieces)'),
        ('covered-prefix', 'len(flat(to_concat)) == %s - S' % COV),
        ('rows-so-far', 'all(flat(to_concat)[r] == self.rows[S + r] for r in range(len(flat(to_concat))))')]}},
    # "optionally followed by a channel selector, returns exactly the rows and columns NumPy would return"
    ensures=[('row-count', 'len(result) == E - S'),
             ('rows-then-deferred-ops-then-columns', "all(result[r] == op_row('cols', item[1], %s) for r in range(E - S))" % (_FOLD_SELF % 'self.rows[S + r]'))])

contract(T, 'BaseEphysReader.__getitem__', variant='tuple-int', props=['C01'],
    params={'item': 'tuple[int,elem]'}, fields=FIELDS, let=GI_LET,
    requires=RWF + [('index-in-range', '-n <= item[0] and item[0] < n')],
    result='arr[elem]', locals={'to_concat': 'blocks[elem]'},
    loops={0: {'idx': 'k', 'seq': 'pieces', 'invariant': [
        ('one-block-per-piece', 'nblocks(to_concat) == k and 0 <= k and k <= 1 and len(flat(to_concat)) == k'),
        ('rows-so-far', 'implies(k == 1, flat(to_concat)[0] == self.rows[ite(old(item[0]) < 0, old(item[0]) + n, old(item[0]))])')]}},
    ensures=[('one-row', 'len(result) == 1'),
             ('that-row-then-deferred-ops-then-columns', "result[0] == op_row('cols', item[1], %s)" % (_FOLD_SELF % 'self.rows[ite(item[0] < 0, item[0] + n, item[0])]'))])

# ---- attributes: "The reader's shape, sample count, channel count ... and duration are those of that concatenated array" --------------------
AWF = RWF + [('chunk-bounds-end-at-sample-count', 'len(self.chunk_bounds) >= 1 and self.chunk_bounds[len(self.chunk_bounds) - 1] == self.part_bounds[len(self.part_bounds) - 1]'),
             ('positive-rate', 'self.sample_rate > 0')]
contract(T, 'BaseEphysReader.n_samples', is_property=True, props=['C01'], params={}, fields=FIELDS, requires=AWF, result='int',
    ensures=[('rows-of-the-concatenation', 'result == len(self.rows)')])
contract(T, 'BaseEphysReader.shape', is_property=True, props=['C01'], params={}, fields=FIELDS, requires=AWF, result='tuple[int,int]',
    ensures=[('shape-of-the-concatenation', 'result[0] == len(self.rows) and result[1] == self.n_channels')])
contract(T, 'BaseEphysReader.n_parts', is_property=True, props=['C01'], params={}, fields=FIELDS, requires=AWF, result='int',
    ensures=[('number-of-files', 'result == len(self.part_bounds) - 1')])
contract(T, 'BaseEphysReader.n_chunks', is_property=True, props=['C01'], params={}, fields=FIELDS, requires=AWF, result='int',
    ensures=[('number-of-chunks', 'result == len(self.chunk_bounds) - 1')])
contract(T, 'BaseEphysReader.duration', is_property=True, props=['C01'], params={}, fields=FIELDS, requires=AWF, result='real',
    ensures=[('samples-over-rate', 'result == len(self.rows) / self.sample_rate')])
# part bounds of several files: 0, then the running totals of their row counts ("rows of the concatenation")
from pyvc.contract import declare_ufunc
declare_ufunc('n_rows', ['elem'], 'int')
contract(T, '_get_part_bounds', props=['C01'], params={'arrs': 'list[elem]'}, result='list[int]',
    requires=[('row-counts-are-not-negative', 'all(n_rows(arrs[k]) >= 0 for k in range(len(arrs)))')],
    ensures=[('one-more-bound-than-files-starting-at-0', 'len(result) == len(arrs) + 1 and result[0] == 0'),
             ('each-bound-adds-the-rows-of-one-file', 'all(result[k + 1] == result[k] + n_rows(arrs[k]) for k in range(len(arrs)))'),
             ('bounds-never-decrease', 'all(result[k] <= result[k + 1] for k in range(len(arrs)))')])

# ---------------------------------------------------------------------------------------------------------
# _get_subitems for an index list / array (increasing row numbers): the pieces split the requested rows by part, in part order,
# each piece listing (increasing) the rows of that part relative to the part start; nothing lost, nothing invented.
# ---------------------------------------------------------------------------------------------------------
_PK, _PV = 'dkeys(result)', 'dvals(result)'
contract(T, '_get_subitems', variant='array', props=['C01'],
    params={'bounds': 'list[int]', 'item': 'arr[int]'}, let={'n': 'bounds[len(bounds) - 1]'},
    requires=WF + [('rows-exist', 'all(0 <= item[k] and item[k] < n for k in range(len(item)))'),
                   ('rows-increasing', 'all(item[a] < item[b] for a in range(len(item)) for b in range(a + 1, len(item)))')],
    result='pairs[int]', locals={'out': 'pairs[int]'},
    loops={1: {'idx': 't', 'seq': 'U', 'invariant': [
        ('one-piece-per-part-so-far', '0 <= t and t <= len(U) and len(dkeys(out)) == t and len(dvals(out)) == t and all(dkeys(out)[j] == U[j] for j in range(t))'),
        ('pieces-list-rows-of-their-part', 'all(all(0 <= dvals(out)[j][r] and dvals(out)[j][r] < bounds[U[j] + 1] - bounds[U[j]] and any(item[k] == bounds[U[j]] + dvals(out)[j][r] for k in range(len(item))) for r in range(len(dvals(out)[j]))) for j in range(t))'),
        ('pieces-increasing', 'all(all(dvals(out)[j][a] < dvals(out)[j][b] for a in range(len(dvals(out)[j])) for b in range(a + 1, len(dvals(out)[j]))) for j in range(t))'),
        ('rows-of-parts-done-are-listed', 'all(implies(any(U[j] == chunks[k] for j in range(t)), any(U[j] == chunks[k] and any(bounds[U[j]] + dvals(out)[j][r] == item[k] for r in range(len(dvals(out)[j]))) for j in range(t))) for k in range(len(item)))')]}},
    cuts=[('out.append((chunk', 'new-piece-appended', 'len(dkeys(out)) == t + 1 and len(dvals(out)) == t + 1 and dkeys(out)[t] == chunk'),
          ('out.append((chunk', 'new-piece-offsets-inside-the-part', 'all(0 <= dvals(out)[t][r] and dvals(out)[t][r] < bounds[chunk + 1] - bounds[chunk] for r in range(len(dvals(out)[t])))'),
          ('out.append((chunk', 'new-piece-holds-requested-rows-of-this-part', 'all(any(item[k] == bounds[chunk] + dvals(out)[t][r] for k in range(len(item))) for r in range(len(dvals(out)[t])))'),
          ('out.append((chunk', 'new-piece-increasing', 'all(dvals(out)[t][a] < dvals(out)[t][b] for a in range(len(dvals(out)[t])) for b in range(a + 1, len(dvals(out)[t])))'),
          ('out.append((chunk', 'older-pieces-untouched', 'all(dkeys(out)[j] == U[j] for j in range(t))'),
          ('out.append((chunk', 'new-piece-lists-the-rows-of-its-part', 'all(implies(chunks[k] == chunk, any(bounds[chunk] + dvals(out)[len(dvals(out)) - 1][r] == item[k] for r in range(len(dvals(out)[len(dvals(out)) - 1])))) for k in range(len(item)))'),
          ('chunks = _find_chunks', 'every-row-lies-in-its-chunk', 'all(0 <= chunks[k] and chunks[k] + 1 < len(bounds) and bounds[chunks[k]] <= item[k] and item[k] < bounds[chunks[k] + 1] for k in range(len(item)))')],
    using={'rows-of-parts-done-are-listed': ['rows-of-parts-done-are-listed', 'one-piece-per-part-so-far', 'new-piece-lists-the-rows-of-its-part'],
           'new-piece-appended': ['one-piece-per-part-so-far'],
           'new-piece-offsets-inside-the-part': ['one-piece-per-part-so-far', 'new-piece-appended', 'theory:index', 'theory:elementwise', 'theory:slice', 'unpack-length', 'every-row-lies-in-its-chunk', 'theory:np.unique'],
           'new-piece-holds-requested-rows-of-this-part': ['one-piece-per-part-so-far', 'new-piece-appended', 'theory:index', 'theory:elementwise', 'theory:slice', 'unpack-length'],
           'new-piece-increasing': ['one-piece-per-part-so-far', 'new-piece-appended', 'theory:index', 'theory:elementwise', 'rows-increasing'],
           'pieces-list-rows-of-their-part': ['pieces-list-rows-of-their-part', 'one-piece-per-part-so-far', 'new-piece-appended', 'new-piece-offsets-inside-the-part', 'new-piece-holds-requested-rows-of-this-part'],
           'pieces-increasing': ['pieces-increasing', 'one-piece-per-part-so-far', 'new-piece-appended', 'new-piece-increasing']},
    ensures=[('parts-in-increasing-order-and-valid', 'len(%s) == len(%s) and all(0 <= %s[j] and %s[j] + 1 < len(bounds) for j in range(len(%s))) and all(%s[a] < %s[b] for a in range(len(%s)) for b in range(a + 1, len(%s)))' % (_PK, _PV, _PK, _PK, _PK, _PK, _PK, _PK, _PK)),
             ('pieces-list-requested-rows-of-their-part', 'all(all(0 <= %s[j][r] and %s[j][r] < bounds[%s[j] + 1] - bounds[%s[j]] and any(item[k] == bounds[%s[j]] + %s[j][r] for k in range(len(item))) for r in range(len(%s[j]))) for j in range(len(%s)))' % (_PV, _PV, _PK, _PK, _PK, _PV, _PV, _PK)),
             ('pieces-increasing', 'all(all(%s[j][a] < %s[j][b] for a in range(len(%s[j])) for b in range(a + 1, len(%s[j]))) for j in range(len(%s)))' % (_PV, _PV, _PV, _PV, _PK)),
             ('every-requested-row-is-in-a-piece', 'all(any(any(bounds[%s[j]] + %s[j][r] == item[k] for r in range(len(%s[j]))) for j in range(len(%s))) for k in range(len(item)))' % (_PK, _PV, _PV, _PK))])

# ---------------------------------------------------------------------------------------------------------
# __getitem__ with an increasing index list / array.  Ghost field `read_idx`: the global row numbers read so far through _get_part
# (the assumed backend contract records them); lemma L1 (Lean) turns "increasing + same members as item" into "equal to item".
# ---------------------------------------------------------------------------------------------------------
AFIELDS = dict(FIELDS, read_idx='list[int]')
contract('<lib>', 'BaseEphysReader._get_part', variant='array', kind='assumed',
    params={'self': 'obj[BaseEphysReader]', 'part_idx': 'int', 'subitem': 'arr[int]'}, fields=AFIELDS, modifies=['self.read_idx'],
    requires=[('part-exists', '0 <= part_idx and part_idx + 1 < len(self.part_bounds)'),
              ('rows-inside-part', 'all(0 <= subitem[r] and subitem[r] < self.part_bounds[part_idx + 1] - self.part_bounds[part_idx] for r in range(len(subitem)))')],
    result='arr[elem]',
    ensures=['len(result) == len(subitem)',
             'all(result[r] == self.rows[self.part_bounds[part_idx] + subitem[r]] for r in range(len(subitem)))',
             # ghost: the rows read, in order
             'len(self.read_idx) == len(old(self.read_idx)) + len(subitem)',
             'all(self.read_idx[a] == old(self.read_idx)[a] for a in range(len(old(self.read_idx))))',
             'all(self.read_idx[len(old(self.read_idx)) + r] == self.part_bounds[part_idx] + subitem[r] for r in range(len(subitem)))'])

_RI = 'self.read_idx'
contract(T, 'BaseEphysReader.__getitem__', variant='array', props=['C01'],
    params={'item': 'arr[int]'}, fields=AFIELDS, let=dict(GI_LET, n0='len(self.read_idx)'), modifies=['self.read_idx'],
    requires=RWF + [('rows-exist', 'all(0 <= item[k] and item[k] < n for k in range(len(item)))'),
                    ('rows-increasing', 'all(item[a] < item[b] for a in range(len(item)) for b in range(a + 1, len(item)))'),
                    ('at-least-one-row', 'len(item) >= 1')],
    result='arr[elem]', locals={'to_concat': 'blocks[elem]'},
    loops={0: {'idx': 'k', 'seq': 'PS', 'invariant': [
        ('one-block-per-piece', 'nblocks(to_concat) == k and 0 <= k and k <= len(dkeys(PS))'),
        ('rows-read-so-far', 'len(flat(to_concat)) == len(%s) - n0 and n0 <= len(%s) and all(flat(to_concat)[r] == self.rows[%s[n0 + r]] for r in range(len(flat(to_concat))))' % (_RI, _RI, _RI)),
        ('read-rows-increasing', 'all(%s[a] < %s[b] for a in range(n0, len(%s)) for b in range(a + 1, len(%s)))' % (_RI, _RI, _RI, _RI)),
        ('read-rows-are-requested-rows-of-parts-done', 'all(any(item[i] == %s[a] for i in range(len(item))) and implies(k >= 1, %s[a] < self.part_bounds[dkeys(PS)[k - 1] + 1]) and k >= 1 for a in range(n0, len(%s)))' % (_RI, _RI, _RI)),
        ('rows-of-pieces-done-are-read', 'all(all(any(%s[a] == self.part_bounds[dkeys(PS)[j]] + dvals(PS)[j][r] for a in range(n0, len(%s))) for r in range(len(dvals(PS)[j]))) for j in range(k))' % (_RI, _RI))]}},
    cuts=[('out = np.vstack', 'read-rows-have-the-members-of-item', 'all(any(%s[a] == item[i] for a in range(n0, len(%s))) for i in range(len(item)))' % (_RI, _RI)),
          ('out = np.vstack', 'let:RD', '%s[n0:]' % _RI),
          ('out = np.vstack', 'read-part-as-a-list', 'len(RD) == len(%s) - n0 and all(RD[r] == %s[n0 + r] for r in range(len(RD)))' % (_RI, _RI)),
          ('out = np.vstack', 'lemma:L1', '(RD, item)'),
          ('out = np.vstack', 'rows-were-read-in-request-order', 'len(RD) == len(item) and all(RD[r] == item[r] for r in range(len(item)))')],
    using={'rows-were-read-in-request-order': ['lemma:L1', 'read-part-as-a-list', 'read-rows-have-the-members-of-item', 'read-rows-increasing', 'read-rows-are-requested-rows-of-parts-done', 'rows-increasing']},
    # "returns exactly the rows NumPy would return on the concatenated array"
    ensures=[('row-count', 'len(result) == len(item)'),
             ('rows-of-the-concatenation-after-deferred-ops', 'all(result[r] == ops_fold(self._ops, len(self._ops), self.rows[item[r]]) for r in range(len(item)))')])

contract(T, 'BaseEphysReader.__getitem__', variant='tuple-array', props=['C01'],
    params={'item': 'tuple[arr[int],elem]'}, fields=AFIELDS, let=dict(GI_LET, n0='len(self.read_idx)'), modifies=['self.read_idx'],
    requires=RWF + [('rows-exist', 'all(0 <= item[0][k] and item[0][k] < n for k in range(len(item[0])))'),
                    ('rows-increasing', 'all(item[0][a] < item[0][b] for a in range(len(item[0])) for b in range(a + 1, len(item[0])))'),
                    ('at-least-one-row', 'len(item[0]) >= 1')],
    result='arr[elem]', locals={'to_concat': 'blocks[elem]'},
    loops={0: {'idx': 'k', 'seq': 'PS', 'invariant': [
        ('one-block-per-piece', 'nblocks(to_concat) == k and 0 <= k and k <= len(dkeys(PS))'),
        ('rows-read-so-far', 'len(flat(to_concat)) == len(%s) - n0 and n0 <= len(%s) and all(flat(to_concat)[r] == self.rows[%s[n0 + r]] for r in range(len(flat(to_concat))))' % (_RI, _RI, _RI)),
        ('read-rows-increasing', 'all(%s[a] < %s[b] for a in range(n0, len(%s)) for b in range(a + 1, len(%s)))' % (_RI, _RI, _RI, _RI)),
        ('read-rows-are-requested-rows-of-parts-done', 'all(any(item[i] == %s[a] for i in range(len(item))) and implies(k >= 1, %s[a] < self.part_bounds[dkeys(PS)[k - 1] + 1]) and k >= 1 for a in range(n0, len(%s)))' % (_RI, _RI, _RI)),
        ('rows-of-pieces-done-are-read', 'all(all(any(%s[a] == self.part_bounds[dkeys(PS)[j]] + dvals(PS)[j][r] for a in range(n0, len(%s))) for r in range(len(dvals(PS)[j]))) for j in range(k))' % (_RI, _RI))]}},
    cuts=[('out = np.vstack', 'read-rows-have-the-members-of-item', 'all(any(%s[a] == item[i] for a in range(n0, len(%s))) for i in range(len(item)))' % (_RI, _RI)),
          ('out = np.vstack', 'let:RD', '%s[n0:]' % _RI),
          ('out = np.vstack', 'read-part-as-a-list', 'len(RD) == len(%s) - n0 and all(RD[r] == %s[n0 + r] for r in range(len(RD)))' % (_RI, _RI)),
          ('out = np.vstack', 'lemma:L1', '(RD, item)'),
          ('out = np.vstack', 'rows-were-read-in-request-order', 'len(RD) == len(item) and all(RD[r] == item[r] for r in range(len(item)))')],
    using={'rows-were-read-in-request-order': ['lemma:L1', 'read-part-as-a-list', 'read-rows-have-the-members-of-item', 'read-rows-increasing', 'read-rows-are-requested-rows-of-parts-done', 'rows-increasing']},
    # "returns exactly the rows NumPy would return on the concatenated array"
    # "optionally followed by a channel selector, returns exactly the rows and columns NumPy would return" (rows given as an index array)
    ensures=[('row-count', 'len(result) == len(item[0])'),
             ('rows-then-deferred-ops-then-columns', "all(result[r] == op_row('cols', item[1], %s) for r in range(len(item[0])))" % (_FOLD_SELF % 'self.rows[item[0][r]]'))])
