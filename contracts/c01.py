"""C01 — reader indexing equals NumPy indexing of the concatenation (DESIGN 4/C01)."""
from pyvc.contract import contract, declare_class
import contracts.lib  # noqa

T = 'phylib/io/traces.py'

contract(T, '_find_chunks', props=['C01', 'C03'],
    params={'bounds': 'list[int]', 'arr': 'list[int]'},
    requires=[('bounds-increasing', 'increasing(bounds)')],
    result='arr[int]',
    ensures=[('same-length', 'len(result) == len(arr)'),
             ('range', 'all(-1 <= result[k] and result[k] <= len(bounds) - 1 for k in range(len(arr)))'),
             ('bounds-up-to-chunk-not-above-x', 'all(bounds[i] <= arr[k] for k in range(len(arr)) for i in range(result[k] + 1))'),
             ('bounds-after-chunk-above-x', 'all(bounds[i] > arr[k] for k in range(len(arr)) for i in range(result[k] + 1, len(bounds)))'),
             ('monotone', 'all(implies(arr[k1] <= arr[k2], result[k1] <= result[k2]) for k1 in range(len(arr)) for k2 in range(len(arr)))')])

WF = [('at-least-one-part', 'len(bounds) >= 2'), ('starts-at-0', 'bounds[0] == 0'),
      ('parts-nonempty', 'increasing(bounds)')]          # every part has >= 1 row

SLICE_REQ = WF + [
    ('unit-step', 'item.step is None or item.step == 1'),
    ('start-in-range', 'item.start is None or (-n <= item.start and item.start <= n)'),
    ('stop-in-range', 'item.stop is None or (-n <= item.stop and item.stop <= n)'),
    ('selects-at-least-one-row', 'S < E')]

# from the statement: "returns exactly the rows NumPy would return on the concatenated array":
# the pieces are consecutive non-empty in-range slices of consecutive parts that tile [S, E)
SLICE_ENS = [
    ('at-least-one-piece', 'len(result) >= 1'),
    ('consecutive-parts', 'all(result[j][0] == result[0][0] + j for j in range(len(result)))'),
    ('pieces-inside-their-parts', 'all(piece_ok(bounds, result[j], result[j][0]) and result[j][0] + 1 < len(bounds) and result[j][0] >= 0 for j in range(len(result)))'),
    ('first-piece-starts-at-S', 'bounds[result[0][0]] + result[0][1].start == S'),
    ('last-piece-stops-at-E', 'bounds[result[len(result) - 1][0]] + result[len(result) - 1][1].stop == E'),
    ('interior-pieces-run-to-part-end', 'all(result[j][1].stop == bounds[result[j][0] + 1] - bounds[result[j][0]] for j in range(len(result) - 1))'),
    ('later-pieces-start-at-part-start', 'all(result[j][1].start == 0 for j in range(1, len(result)))'),
]

contract(T, '_get_subitems', variant='slice', props=['C01'],
    params={'bounds': 'list[int]', 'item': 'slice[opt[int],opt[int],opt[int]]'},
    let={'n': 'bounds[len(bounds) - 1]', 'S': 'norm_start(item.start, bounds[len(bounds) - 1])', 'E': 'norm_stop(item.stop, bounds[len(bounds) - 1])'},
    requires=SLICE_REQ, result='list[tuple[int,slice]]', ensures=SLICE_ENS,
    locals={'out': 'list[tuple[int,slice]]'},
    loops={0: {'invariant': [
        ('count', 'len(out) == chunk - first_chunk and first_chunk <= chunk and chunk <= last_chunk + 1'),
        ('pieces-ok', 'all(piece_ok(bounds, out[j], first_chunk + j) for j in range(len(out)))'),
        ('first-starts-at-S', 'implies(len(out) >= 1, bounds[first_chunk] + out[0][1].start == start)'),
        ('interior-full', 'all(implies(first_chunk + j < last_chunk, out[j][1].stop == bounds[first_chunk + j + 1] - bounds[first_chunk + j]) for j in range(len(out)))'),
        ('last-stops-at-E', 'implies(chunk == last_chunk + 1 and len(out) >= 1, bounds[last_chunk] + out[len(out) - 1][1].stop == stop)'),
        ('later-start-0', 'all(out[j][1].start == 0 for j in range(1, len(out)))'),
    ]}},
    hints={'replay': None})

contract(T, '_get_subitems', variant='int', props=['C01'],
    params={'bounds': 'list[int]', 'item': 'int'},
    let={'n': 'bounds[len(bounds) - 1]'},
    requires=WF + [('index-in-range', '-n <= item and item < n')],
    result='list[tuple[int,int]]',
    # from the statement: "an integer selects one row": row (item mod n) of the concatenation, located in its part
    ensures=[('one-piece', 'len(result) == 1'),
             ('part-in-range', '0 <= result[0][0] and result[0][0] + 1 < len(bounds)'),
             ('row-inside-part', '0 <= result[0][1] and result[0][1] < bounds[result[0][0] + 1] - bounds[result[0][0]]'),
             ('locates-the-row', 'bounds[result[0][0]] + result[0][1] == ite(item < 0, item + n, item)')])

contract(T, '_get_subitems', variant='tuple-slice', props=['C01'],
    params={'bounds': 'list[int]', 'item': 'tuple[slice[opt[int],opt[int],opt[int]],elem]'},
    let={'n': 'bounds[len(bounds) - 1]', 'S': 'norm_start(item[0].start, bounds[len(bounds) - 1])', 'E': 'norm_stop(item[0].stop, bounds[len(bounds) - 1])'},
    requires=[(l, e.replace('item.', 'item[0].')) for l, e in SLICE_REQ],
    result='list[tuple[int,slice]]', ensures=SLICE_ENS)
