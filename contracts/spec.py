"""Specification functions shared by the symbolic side (inlined by the executor) and the concrete side
(called as plain Python).  Straight-line, expression-bodied definitions only."""


def clip(x, n):
    """What data[a:b] does with an out-of-range bound on data of length n."""
    return min(max(x, 0), n)


def piece_ok(bounds, piece, c):
    """(chunk, slice(a, b, 1)) is a non-empty in-range slice of part c."""
    ch, sl = piece
    return ch == c and sl.step == 1 and 0 <= sl.start and sl.start < sl.stop and sl.stop <= bounds[c + 1] - bounds[c]


def increasing(xs):
    """Strictly increasing, in the transitive (global) form so that no induction is needed by users."""
    return all(xs[i] < xs[j] for i in range(len(xs)) for j in range(i + 1, len(xs)))


def psum(xs, k):
    """Sum of the first k elements (built in on the symbolic side: uninterpreted + recursive definition)."""
    return sum(xs[:k])


def norm_start(s, n):
    """slice(s, ., 1).indices(n)[0]"""
    if s is None:
        return 0
    if s < 0:
        return max(s + n, 0)
    return min(s, n)


def norm_stop(s, n):
    """slice(., s, 1).indices(n)[1]"""
    if s is None:
        return n
    if s < 0:
        return max(s + n, 0)
    return min(s, n)


def first_token(text):
    """text.split(' ')[0] (uninterpreted on the symbolic side)."""
    return text.split(' ')[0]


def matches(c, event, sender):
    """record (event, sender_filter, func, kwargs) is called for an emit of `event` by `sender`"""
    return c[0] == event and (c[1] is None or c[1] == sender)


def smul(q, s):
    """q * s (kept linear on the symbolic side: uninterpreted + the defining recurrence)."""
    return q * s


def sq(t):
    return t * t


def dist2(positions, i, c):
    """squared Euclidean distance between channels i and c"""
    return sq(positions[c][0] - positions[i][0]) + sq(positions[c][1] - positions[i][1])


def rpsum(arrays, p):
    """total number of elements of the first p arrays of a list of arrays"""
    return sum(len(a) for a in arrays[:p])
