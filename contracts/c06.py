"""C06 — sparse feature storage is densified exactly (DESIGN 4/C06): the sparse-to-dense conversion, rank-2 case."""
from pyvc.contract import contract
from . import c07  # noqa: the proved 1-D contract of _index_of (also listed under C06)

M = 'phylib/io/model.py'
A = 'phylib/io/array.py'

# the proved 1-D contract of _index_of (contracts/c07.py) read through the position bijection of flatten(): the function is elementwise in `arr`
contract(A, '_index_of', variant='flattened-matrix', props=['C06'], params={'arr': 'flatmat[int]', 'lookup': 'arr[int]'}, result='flatmat[int]',
    note='the 1-D contract of _index_of (C07) for a flattened matrix argument: proved on the same body (the final gather tmp[arr] is elementwise)',
    requires=[('lookup-distinct', 'all(lookup[i] != lookup[j] for i in range(len(lookup)) for j in range(i + 1, len(lookup)))'),
              ('lookup-entries-at-least-minus-1', 'all(lookup[i] >= -1 for i in range(len(lookup)))'),
              ('every-element-is-in-the-lookup', 'all(all(any(lookup[i] == arr[s][j] for i in range(len(lookup))) for j in range(len(arr[s]))) for s in range(len(arr)))')],
    ensures=[('same-shape', 'same_lengths(result, arr)'),
             ('position-in-lookup', 'all(all(0 <= result[s][j] and result[s][j] < len(lookup) and lookup[result[s][j]] == arr[s][j] for j in range(len(arr[s]))) for s in range(len(arr)))')])

_STORED = 'any(cols[s][j] == channel_ids[k] for j in range(len(cols[s])))'
contract(M, 'from_sparse', variant='rank2', props=['C06'], theory=['unique-count'], params={'data': 'mat[real]', 'cols': 'mat[int]', 'channel_ids': 'arr[int]'}, result='mat[real]',
    requires=[('one-column-table-entry-per-stored-value', 'same_lengths(data, cols)'),
              ('channel-ids-are-non-negative', 'all(channel_ids[k] >= 0 for k in range(len(channel_ids)))')],
    raises=[('NotImplementedError', 'not all(channel_ids[a] != channel_ids[b] for a in range(len(channel_ids)) for b in range(a + 1, len(channel_ids)))', 'iff')],
    # from the statement: "returns, at position (spike, channel), the stored value whose column index names that channel ..., and zero where
    # that channel is not stored, independently of the order of the requested channels"
    ensures=[('one-row-per-spike-one-column-per-requested-channel', 'len(result) == len(data) and width(result) == len(channel_ids)'),
             ('stored-value-whose-column-index-names-the-channel', 'all(all(implies(%s, any(cols[s][j] == channel_ids[k] and result[s][k] == data[s][j] for j in range(len(cols[s])))) for k in range(len(channel_ids))) for s in range(len(data)))' % _STORED),
             ('zero-where-the-channel-is-not-stored', 'all(all(implies(not %s, result[s][k] == 0) for k in range(len(channel_ids))) for s in range(len(data)))' % _STORED)])

# "incl. extra trailing dimensions": data of shape (n_spikes, n_channels_loc, p); a cell (spike, column) is the whole trailing vector
from pyvc.contract import declare_ufunc
declare_ufunc('zero_cell', ['int'], 'elem')
contract(M, 'from_sparse', variant='rank3', props=['C06'], theory=['unique-count'], params={'data': 'cube[elem]', 'cols': 'mat[int]', 'channel_ids': 'arr[int]'}, result='cube[elem]',
    requires=[('one-column-table-entry-per-stored-value', 'same_lengths(data, cols)'),
              ('channel-ids-are-non-negative', 'all(channel_ids[k] >= 0 for k in range(len(channel_ids)))')],
    raises=[('NotImplementedError', 'not all(channel_ids[a] != channel_ids[b] for a in range(len(channel_ids)) for b in range(a + 1, len(channel_ids)))', 'iff')],
    ensures=[('one-row-per-spike-one-column-per-requested-channel', 'len(result) == len(data) and width(result) == len(channel_ids) and depth(result) == depth(data)'),
             ('stored-value-whose-column-index-names-the-channel', 'all(all(implies(%s, any(cols[s][j] == channel_ids[k] and result[s][k] == data[s][j] for j in range(len(cols[s])))) for k in range(len(channel_ids))) for s in range(len(data)))' % _STORED),
             ('zero-where-the-channel-is-not-stored', 'all(all(implies(not %s, result[s][k] == zero_cell(depth(data))) for k in range(len(channel_ids))) for s in range(len(data)))' % _STORED)])

# ---- get_template_features: rank 2 throughout ---------------------------------------------------------------------------------------------
from pyvc.contract import declare_class
declare_class('SparseStore2', M, fields={'data': 'mat[real]', 'cols': 'opt[mat[int]]', 'rows': 'opt[arr[int]]'})
declare_class('TemplateModel', M)
_TF = 'self.sparse_template_features'
_D, _C, _R, _ST = _TF + '.data', _TF + '.cols', _TF + '.rows', 'self.spike_templates'
_TL = 'len(%s[0])' % _D       # stored columns per spike (matrix width; only read when the store has rows)
# column table row of requested spike i / stored row of requested spike i, per storage layout
_colmatch = lambda i, j, t: '%s[%s[spike_ids[%s]]][%s] == %s' % (_C, _ST, i, j, t)
contract(M, 'TemplateModel.get_template_features', props=['C06'], theory=['intersect1d-L1'], params={'spike_ids': 'arr[int]'}, result='opt[mat[real]]',
    fields={'sparse_template_features': 'opt[obj[SparseStore2]]', 'spike_templates': 'arr[int]', 'spike_clusters': 'arr[int]', 'n_templates': 'int'},
    requires=[('spike-ids-valid', 'all(0 <= spike_ids[i] and spike_ids[i] < len(%s) for i in range(len(spike_ids)))' % _ST),
              ('templates-valid', 'self.n_templates >= 0 and all(0 <= %s[s] and %s[s] < self.n_templates for s in range(len(%s)))' % (_ST, _ST, _ST)),
              ('column-table-has-one-row-per-template', 'implies(%s is not None and %s is not None, len(%s) == self.n_templates and same_widths(%s, %s))' % (_TF, _C, _C, _C, _D)),
              ('store-without-row-table-holds-all-spikes', 'implies(%s is not None and %s is None, len(%s) == len(%s))' % (_TF, _R, _D, _ST)),
              ('row-table-names-distinct-spikes', 'implies(%s is not None and %s is not None, len(%s) == len(%s) and all(%s[a] >= 0 for a in range(len(%s))) and all(%s[a] != %s[b] for a in range(len(%s)) for b in range(a + 1, len(%s))))' % (_TF, _R, _R, _D, _R, _R, _R, _R, _R, _R)),
              # "values are claimed for stored spikes only"; with a row table the request is a spike-id SUBSET (increasing ids)
              ('requested-spikes-are-stored-and-increasing', 'implies(%s is not None and %s is not None, all(any(%s[q] == spike_ids[i] for q in range(len(%s))) for i in range(len(spike_ids))) and all(spike_ids[a] < spike_ids[b] for a in range(len(spike_ids)) for b in range(a + 1, len(spike_ids))))' % (_TF, _R, _R, _R))],
    ensures=[('nothing-without-a-store', 'iff(result is None, %s is None)' % _TF),
             ('one-row-per-spike-one-column-per-template', 'implies(%s is not None, len(result) == len(spike_ids) and width(result) == self.n_templates)' % _TF),
             # with a row table: THE stored row q of a requested spike is the one whose listed id is that spike (it exists and is unique by the preconditions)
             # dense column layout (no column table): stored column j IS template j
             ('all-spikes-stored-identity-columns', 'implies(%s is not None and %s is None and %s is None, all(all(result[i][t] == ite(t < width(%s), %s[spike_ids[i]][t], 0) for t in range(self.n_templates)) for i in range(len(spike_ids))))' % (_TF, _R, _C, _D, _D)),
             ('all-spikes-stored-column-table', 'implies(%s is not None and %s is None and %s is not None, all(all('
                 'implies(any(%s for j in range(width(%s))), any(%s and result[i][t] == %s[spike_ids[i]][j] for j in range(width(%s)))) and '
                 'implies(not any(%s for j in range(width(%s))), result[i][t] == 0) for t in range(self.n_templates)) for i in range(len(spike_ids))))'
                 % (_TF, _R, _C, _colmatch('i', 'j', 't'), _D, _colmatch('i', 'j', 't'), _D, _D, _colmatch('i', 'j', 't'), _D)),
             ('listed-spikes-identity-columns', 'implies(%s is not None and %s is not None and %s is None, all(all(implies(%s[q] == spike_ids[i], all(result[i][t] == ite(t < width(%s), %s[q][t], 0) for t in range(self.n_templates))) for q in range(len(%s))) for i in range(len(spike_ids))))' % (_TF, _R, _C, _R, _D, _D, _R)),
             ('listed-spikes-column-table', 'implies(%s is not None and %s is not None and %s is not None, all(all(implies(%s[q] == spike_ids[i], all('
                 'implies(any(%s for j in range(width(%s))), any(%s and result[i][t] == %s[q][j] for j in range(width(%s)))) and '
                 'implies(not any(%s for j in range(width(%s))), result[i][t] == 0) for t in range(self.n_templates))) for q in range(len(%s))) for i in range(len(spike_ids))))'
                 % (_TF, _R, _C, _R, _colmatch('i', 'j', 't'), _D, _colmatch('i', 'j', 't'), _D, _D, _colmatch('i', 'j', 't'), _D, _R))])

# ---- get_features: rank-3 store (n_stored, n_channels_loc, n_pcs); the PCA fallback (no store, extracted waveforms) stays bounded -------------
declare_class('SparseStore3', M, fields={'data': 'cube[elem]', 'cols': 'opt[mat[int]]', 'rows': 'opt[arr[int]]'})
_SF = 'self.sparse_features'
_FD, _FC, _FR = _SF + '.data', _SF + '.cols', _SF + '.rows'
_fmatch = lambda i, j, k: '%s[%s[spike_ids[%s]]][%s] == channel_ids[%s]' % (_FC, _ST, i, j, k)
_VAL_TABLE = ('all(implies(any(%s for j in range(width(%s))), any(%s and result[i][k] == %s[ROW][j] for j in range(width(%s)))) and '
              'implies(not any(%s for j in range(width(%s))), result[i][k] == zero_cell(depth(%s))) for k in range(len(channel_ids)))'
              % (_fmatch('i', 'j', 'k'), _FD, _fmatch('i', 'j', 'k'), _FD, _FD, _fmatch('i', 'j', 'k'), _FD, _FD))
_IDMATCH = 'any(j == channel_ids[k] for j in range(width(%s)))' % _FD
_VAL_IDENT = ('all(implies(0 <= channel_ids[k] and channel_ids[k] < width(%s), result[i][k] == %s[ROW][channel_ids[k]]) and '
              'implies(not (0 <= channel_ids[k] and channel_ids[k] < width(%s)), result[i][k] == zero_cell(depth(%s))) for k in range(len(channel_ids)))' % (_FD, _FD, _FD, _FD))
_VAL_IDENT_A = ('all(implies(0 <= channel_ids[k] and channel_ids[k] < width(%s), result[i][k] == %s[ROW][channel_ids[k]]) for k in range(len(channel_ids)))' % (_FD, _FD))
_VAL_IDENT_B = ('all(implies(not (0 <= channel_ids[k] and channel_ids[k] < width(%s)), result[i][k] == zero_cell(depth(%s))) for k in range(len(channel_ids)))' % (_FD, _FD))
contract(M, 'TemplateModel.get_features', props=['C06'], params={'spike_ids': 'arr[int]', 'channel_ids': 'arr[int]'}, result='opt[cube[elem]]',
    fields={'sparse_features': 'opt[obj[SparseStore3]]', 'spike_waveforms': 'none', 'spike_templates': 'arr[int]', 'spike_clusters': 'arr[int]', 'n_templates': 'int'},
    requires=[('spike-ids-valid', 'all(0 <= spike_ids[i] and spike_ids[i] < len(%s) for i in range(len(spike_ids)))' % _ST),
              ('templates-valid', 'self.n_templates >= 0 and all(0 <= %s[s] and %s[s] < self.n_templates for s in range(len(%s)))' % (_ST, _ST, _ST)),
              ('requested-channels-distinct-non-negative', 'all(channel_ids[k] >= 0 for k in range(len(channel_ids))) and all(channel_ids[a] != channel_ids[b] for a in range(len(channel_ids)) for b in range(a + 1, len(channel_ids)))'),
              ('column-table-has-one-row-per-template', 'implies(%s is not None and %s is not None, len(%s) == self.n_templates and same_widths(%s, %s))' % (_SF, _FC, _FC, _FC, _FD)),
              ('store-without-row-table-holds-all-spikes', 'implies(%s is not None and %s is None, len(%s) == len(%s))' % (_SF, _FR, _FD, _ST)),
              ('row-table-names-distinct-spikes', 'implies(%s is not None and %s is not None, len(%s) == len(%s) and all(%s[a] >= 0 for a in range(len(%s))) and all(%s[a] != %s[b] for a in range(len(%s)) for b in range(a + 1, len(%s))))' % (_SF, _FR, _FR, _FD, _FR, _FR, _FR, _FR, _FR, _FR)),
              # with a row table the request is a spike-id subset: no spike twice (any order)
              ('requested-spikes-distinct-when-listed', 'implies(%s is not None and %s is not None, all(spike_ids[a] != spike_ids[b] for a in range(len(spike_ids)) for b in range(a + 1, len(spike_ids))))' % (_SF, _FR))],
    # stepping stones on the row-table branch: where a requested, listed spike ends up
    cuts=[('rows_out = _index_of', 'listed-requested-spikes-have-a-position-in-s',
           'all(all(implies(%s[q] == spike_ids[i], any(s[m] == spike_ids[i] and rows[m] == q and rows_out[m] == i for m in range(len(s)))) for q in range(len(%s))) for i in range(len(spike_ids)))' % (_FR, _FR)),
          ('cols = np.tile', 'identity-columns-name-themselves',
           'all(all(implies(0 <= channel_ids[k] and channel_ids[k] < width(cols), cols[i][channel_ids[k]] == channel_ids[k]) for k in range(len(channel_ids))) for i in range(len(spike_ids)))'),
          ('features[rows_out, ...] =', 'listed-requested-spikes-get-their-stored-row',
           'implies(%s is not None, all(all(implies(%s[q] == spike_ids[i], all(features[i][j] == %s[q][j] for j in range(width(%s)))) for q in range(len(%s))) for i in range(len(spike_ids))))' % (_FR, _FR, _FD, _FD, _FR))],
    ensures=[('nothing-without-a-store', 'iff(result is None, %s is None)' % _SF),
             ('one-row-per-spike-one-column-per-channel', 'implies(%s is not None, len(result) == len(spike_ids) and width(result) == len(channel_ids) and depth(result) == depth(%s))' % (_SF, _FD)),
             ('all-spikes-stored-identity-columns-values', 'implies(%s is not None and %s is None and %s is None, all(%s for i in range(len(spike_ids))))' % (_SF, _FR, _FC, _VAL_IDENT_A.replace('ROW', 'spike_ids[i]'))),
             ('all-spikes-stored-identity-columns-zero-elsewhere', 'implies(%s is not None and %s is None and %s is None, all(%s for i in range(len(spike_ids))))' % (_SF, _FR, _FC, _VAL_IDENT_B.replace('ROW', 'spike_ids[i]'))),
             ('all-spikes-stored-column-table', 'implies(%s is not None and %s is None and %s is not None, all(%s for i in range(len(spike_ids))))' % (_SF, _FR, _FC, _VAL_TABLE.replace('ROW', 'spike_ids[i]'))),
             # "values are claimed for stored spikes only": q ranges over the stored rows, the clause speaks about the requested spikes listed there
             ('listed-spikes-identity-columns-values', 'implies(%s is not None and %s is not None and %s is None, all(all(implies(%s[q] == spike_ids[i], %s) for q in range(len(%s))) for i in range(len(spike_ids))))' % (_SF, _FR, _FC, _FR, _VAL_IDENT_A.replace('ROW', 'q'), _FR)),
             ('listed-spikes-identity-columns-zero-elsewhere', 'implies(%s is not None and %s is not None and %s is None, all(all(implies(%s[q] == spike_ids[i], %s) for q in range(len(%s))) for i in range(len(spike_ids))))' % (_SF, _FR, _FC, _FR, _VAL_IDENT_B.replace('ROW', 'q'), _FR)),
             ('listed-spikes-column-table', 'implies(%s is not None and %s is not None and %s is not None, all(all(implies(%s[q] == spike_ids[i], %s) for q in range(len(%s))) for i in range(len(spike_ids))))' % (_SF, _FR, _FC, _FR, _VAL_TABLE.replace('ROW', 'q'), _FR))])
